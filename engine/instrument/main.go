// instrument rewrites the concurrency-relevant packages of process-compose
// into a scratch directory and emits a `go build -overlay` file. Rewrites
// (all mechanical, line numbers preserved through //line directives):
//
//  1. import "sync" / "sync/atomic"  ->  vrt/vsync / vrt/vatomic shims
//  2. `range X` with X of map type   ->  `range vrt.MapRange("<site>", X)`
//  4. `vrt.MapAccess(m, field, func, write)` in front of every statement that reads or writes a map held in a
//     struct field (input of the happens-before race detection on shared maps)
//  3. scheduling points after raw (non-shim) wake-ups: after every go
//     statement, channel receive statement, time.Sleep, and at the start of
//     every select clause and range-over-channel body.
//
// A construct it cannot handle is a hard error, never a silent skip.
package main

import (
	"encoding/json"
	"flag"
	"fmt"
	"go/ast"
	"go/token"
	"go/types"
	"os"
	"path/filepath"
	"sort"
	"strings"

	"golang.org/x/tools/go/packages"
)

const mod = "github.com/f1bonacc1/process-compose"

var pkgs = []string{"app", "pclog", "health", "api", "client", "types", "loader", "templater"}

type edit struct {
	off  int
	text string
	del  int // bytes to delete at off before inserting
	seq  int
}

func fatal(f string, a ...any) {
	fmt.Fprintf(os.Stderr, "instrument: "+f+"\n", a...)
	os.Exit(2)
}

func main() {
	repo := flag.String("repo", "/repo", "repository root")
	out := flag.String("out", "", "scratch output directory")
	vrtDir := flag.String("vrt", "/verif/engine/vrt", "directory with the vrt runtime sources")
	flag.Parse()
	if *out == "" {
		fatal("-out required")
	}
	var patterns []string
	for _, p := range pkgs {
		patterns = append(patterns, mod+"/src/"+p)
	}
	cfg := &packages.Config{
		Mode:       packages.NeedName | packages.NeedFiles | packages.NeedCompiledGoFiles | packages.NeedSyntax | packages.NeedTypes | packages.NeedTypesInfo | packages.NeedImports | packages.NeedDeps,
		Dir:        *repo,
		BuildFlags: []string{"-tags=verif"},
		Fset:       token.NewFileSet(),
	}
	loaded, err := packages.Load(cfg, patterns...)
	if err != nil {
		fatal("load: %v", err)
	}
	if len(loaded) != len(pkgs) {
		fatal("expected %d packages, loaded %d", len(pkgs), len(loaded))
	}
	overlay := map[string]string{}
	stats := map[string]int{}
	var sites []string
	for _, p := range loaded {
		if len(p.Errors) > 0 {
			fatal("package %s: %v", p.PkgPath, p.Errors[0])
		}
		for i, f := range p.Syntax {
			fn := p.CompiledGoFiles[i]
			if strings.HasSuffix(fn, "_test.go") {
				continue
			}
			src, err := os.ReadFile(fn)
			if err != nil {
				fatal("%v", err)
			}
			res, n, fsites := rewrite(cfg.Fset, p, f, fn, src, *repo)
			for k, v := range n {
				stats[k] += v
			}
			sites = append(sites, fsites...)
			if res == nil {
				continue
			}
			rel, _ := filepath.Rel(*repo, fn)
			dst := filepath.Join(*out, "rw", rel)
			os.MkdirAll(filepath.Dir(dst), 0o755)
			if err := os.WriteFile(dst, res, 0o644); err != nil {
				fatal("%v", err)
			}
			overlay[fn] = dst
		}
	}
	// virtual packages
	for _, sub := range []string{"", "vsync", "vatomic"} {
		ents, err := os.ReadDir(filepath.Join(*vrtDir, sub))
		if err != nil {
			fatal("%v", err)
		}
		for _, e := range ents {
			if strings.HasSuffix(e.Name(), ".go") || strings.HasSuffix(e.Name(), ".s") {
				overlay[filepath.Join(*repo, "src", "vrt", sub, e.Name())] = filepath.Join(*vrtDir, sub, e.Name())
			}
		}
	}
	b, _ := json.MarshalIndent(map[string]any{"Replace": overlay}, "", " ")
	if err := os.WriteFile(filepath.Join(*out, "overlay.json"), b, 0o644); err != nil {
		fatal("%v", err)
	}
	sort.Strings(sites)
	sb, _ := json.MarshalIndent(map[string]any{"stats": stats, "map_sites": sites}, "", " ")
	os.WriteFile(filepath.Join(*out, "instrument.json"), sb, 0o644)
	fmt.Printf("instrument: %v\n", stats)
}

func rewrite(fset *token.FileSet, p *packages.Package, f *ast.File, fn string, src []byte, repo string) ([]byte, map[string]int, []string) {
	var edits []edit
	n := map[string]int{}
	var sites []string
	seq := 0
	add := func(pos token.Pos, text string, del int) {
		edits = append(edits, edit{off: fset.Position(pos).Offset, text: text, del: del, seq: seq})
		seq++
	}
	needVrt := false
	// 1. imports
	for _, im := range f.Imports {
		path := strings.Trim(im.Path.Value, `"`)
		var repl, defName string
		switch path {
		case "sync":
			repl, defName = mod+"/src/vrt/vsync", "sync"
		case "sync/atomic":
			repl, defName = mod+"/src/vrt/vatomic", "atomic"
		default:
			continue
		}
		if im.Name != nil {
			if im.Name.Name == "." || im.Name.Name == "_" {
				fatal("%s: unsupported import form %s %s", fn, im.Name.Name, path)
			}
			add(im.Path.Pos(), `"`+repl+`"`, len(im.Path.Value))
		} else {
			add(im.Path.Pos(), defName+` "`+repl+`"`, len(im.Path.Value))
		}
		n["imports"]++
	}
	relfn, _ := filepath.Rel(filepath.Join(repo, "src"), fn)
	var funcName string
	isChanRecv := func(e ast.Expr) bool {
		for {
			if pe, ok := e.(*ast.ParenExpr); ok {
				e = pe.X
				continue
			}
			break
		}
		u, ok := e.(*ast.UnaryExpr)
		return ok && u.Op == token.ARROW
	}
	ast.Inspect(f, func(node ast.Node) bool {
		switch x := node.(type) {
		case *ast.FuncDecl:
			funcName = x.Name.Name
			if x.Recv != nil && len(x.Recv.List) > 0 {
				t := x.Recv.List[0].Type
				if s, ok := t.(*ast.StarExpr); ok {
					t = s.X
				}
				if id, ok := t.(*ast.Ident); ok {
					funcName = id.Name + "." + funcName
				}
			}
		case *ast.RangeStmt:
			tv, ok := p.TypesInfo.Types[x.X]
			if !ok {
				fatal("%s: no type for range expression at %v", fn, fset.Position(x.X.Pos()))
			}
			switch tv.Type.Underlying().(type) {
			case *types.Map:
				line := fset.Position(x.Pos()).Line
				site := fmt.Sprintf("%s:%d:%s", relfn, line, funcName)
				add(x.X.Pos(), fmt.Sprintf("vrt.MapRange(%q, ", site), 0)
				add(x.X.End(), ")", 0)
				needVrt = true
				n["map_ranges"]++
				sites = append(sites, site)
			case *types.Chan:
				add(x.Body.Lbrace+1, ` vrt.Yield("rangechan");`, 0)
				needVrt = true
				n["yields"]++
			}
		case *ast.GoStmt:
			add(x.End(), "; vrt.AfterGo()", 0)
			needVrt = true
			n["go_stmts"]++
		case *ast.ExprStmt:
			if isChanRecv(x.X) {
				add(x.End(), `; vrt.Yield("recv")`, 0)
				needVrt = true
				n["yields"]++
			} else if call, ok := x.X.(*ast.CallExpr); ok {
				if sel, ok := call.Fun.(*ast.SelectorExpr); ok {
					if id, ok := sel.X.(*ast.Ident); ok && id.Name == "time" && sel.Sel.Name == "Sleep" {
						if _, isPkg := p.TypesInfo.Uses[id].(*types.PkgName); isPkg {
							add(x.End(), `; vrt.Yield("sleep")`, 0)
							needVrt = true
							n["yields"]++
						}
					}
				}
			}
		case *ast.AssignStmt:
			if len(x.Rhs) == 1 && isChanRecv(x.Rhs[0]) {
				// not inside a select CommClause header: handled there
				add(x.End(), `; vrt.Yield("recv")`, 0)
				needVrt = true
				n["yields"]++
			}
		case *ast.SelectStmt:
			for _, c := range x.Body.List {
				cc := c.(*ast.CommClause)
				add(cc.Colon+1, ` vrt.Yield("select");`, 0)
				needVrt = true
				n["yields"]++
			}
		}
		return true
	})
	// 4. accesses to maps held in struct fields: a call recording the access (map identity, field, function,
	// read/write) is put in front of the statement of the enclosing statement list that performs it; nested
	// blocks and function literals are statement lists of their own
	isFieldMap := func(e ast.Expr) (string, bool) {
		if id, ok := e.(*ast.Ident); ok {
			// a variable holding a map (possibly an alias of a shared one: `obs := b.observers`): the map object is
			// what is identified at run time, the variable only names the access
			if v, ok := p.TypesInfo.Uses[id].(*types.Var); ok && !v.IsField() {
				if _, isMap := v.Type().Underlying().(*types.Map); isMap {
					return id.Name, true
				}
			}
			return "", false
		}
		sel, ok := e.(*ast.SelectorExpr)
		if !ok {
			return "", false
		}
		selInfo, ok := p.TypesInfo.Selections[sel]
		if !ok || selInfo.Kind() != types.FieldVal {
			return "", false
		}
		if _, isMap := selInfo.Type().Underlying().(*types.Map); !isMap {
			return "", false
		}
		return sel.Sel.Name, true
	}
	unparen := func(e ast.Expr) ast.Expr {
		for {
			pe, ok := e.(*ast.ParenExpr)
			if !ok {
				return e
			}
			e = pe.X
		}
	}
	srcOf := func(n ast.Node) string {
		return string(src[fset.Position(n.Pos()).Offset:fset.Position(n.End()).Offset])
	}
	collectOwn := func(root ast.Stmt, fname string) string {
		if _, isBlock := root.(*ast.BlockStmt); isBlock {
			return ""
		}
		writes := map[ast.Expr]bool{}
		type acc struct {
			text, field string
			write       bool
		}
		var accs []acc
		seen := map[string]bool{}
		note := func(m ast.Expr, write bool) {
			field, ok := isFieldMap(m)
			if !ok {
				return
			}
			a := acc{text: srcOf(m), field: field, write: write}
			k := fmt.Sprintf("%s|%v", a.text, write)
			if !seen[k] {
				seen[k] = true
				accs = append(accs, a)
			}
		}
		ast.Inspect(root, func(node ast.Node) bool {
			switch x := node.(type) {
			case *ast.BlockStmt, *ast.FuncLit:
				return false
			case *ast.AssignStmt:
				for _, l := range x.Lhs {
					if ix, ok := unparen(l).(*ast.IndexExpr); ok {
						writes[ix] = true
					}
				}
			case *ast.IncDecStmt:
				if ix, ok := unparen(x.X).(*ast.IndexExpr); ok {
					writes[ix] = true
				}
			case *ast.IndexExpr:
				note(unparen(x.X), writes[x])
			case *ast.RangeStmt:
				note(unparen(x.X), false)
			case *ast.CallExpr:
				if id, ok := x.Fun.(*ast.Ident); ok && len(x.Args) > 0 {
					if _, builtin := p.TypesInfo.Uses[id].(*types.Builtin); builtin {
						switch id.Name {
						case "delete", "clear":
							note(unparen(x.Args[0]), true)
						case "len":
							note(unparen(x.Args[0]), false)
						}
					}
				}
			}
			return true
		})
		var b strings.Builder
		for _, a := range accs {
			fmt.Fprintf(&b, "vrt.MapAccess(%s, %q, %q, %v); ", a.text, a.field, fname, a.write)
		}
		return b.String()
	}
	{
		var fname string
		var doList func(list []ast.Stmt)
		doList = func(list []ast.Stmt) {
			for _, st := range list {
				if t := collectOwn(st, fname); t != "" {
					add(st.Pos(), t, 0)
					needVrt = true
					n["map_accesses"]++
				}
			}
		}
		ast.Inspect(f, func(node ast.Node) bool {
			switch x := node.(type) {
			case *ast.FuncDecl:
				fname = x.Name.Name
				if x.Recv != nil && len(x.Recv.List) > 0 {
					t := x.Recv.List[0].Type
					if s, ok := t.(*ast.StarExpr); ok {
						t = s.X
					}
					if id, ok := t.(*ast.Ident); ok {
						fname = id.Name + "." + fname
					}
				}
			case *ast.BlockStmt:
				doList(x.List)
			case *ast.CaseClause:
				doList(x.Body)
			case *ast.CommClause:
				doList(x.Body)
			}
			return true
		})
	}
	// statements that are the Comm of a select clause must not get a trailing
	// yield (syntax): drop edits located at the end of a CommClause.Comm.
	commEnds := map[int]bool{}
	ast.Inspect(f, func(node ast.Node) bool {
		if cc, ok := node.(*ast.CommClause); ok && cc.Comm != nil {
			commEnds[fset.Position(cc.Comm.End()).Offset] = true
		}
		return true
	})
	// likewise an `if x := <-ch; cond` / `switch x := <-ch; x` / for init statement
	ast.Inspect(f, func(node ast.Node) bool {
		var init ast.Stmt
		switch x := node.(type) {
		case *ast.IfStmt:
			init = x.Init
		case *ast.SwitchStmt:
			init = x.Init
		case *ast.TypeSwitchStmt:
			init = x.Init
		case *ast.ForStmt:
			if x.Init != nil {
				commEnds[fset.Position(x.Init.End()).Offset] = true
			}
			if x.Post != nil {
				commEnds[fset.Position(x.Post.End()).Offset] = true
			}
		}
		if init != nil {
			commEnds[fset.Position(init.End()).Offset] = true
		}
		return true
	})
	var kept []edit
	for _, e := range edits {
		if commEnds[e.off] && strings.HasPrefix(e.text, "; vrt.Yield(\"recv\")") {
			n["yields"]--
			continue
		}
		kept = append(kept, e)
	}
	edits = kept
	if len(edits) == 0 {
		return nil, n, sites
	}
	if needVrt {
		// add the import right after the package clause, on the same line
		add(f.Name.End(), `; import vrt "`+mod+`/src/vrt"`, 0)
	}
	sort.SliceStable(edits, func(i, j int) bool {
		if edits[i].off != edits[j].off {
			return edits[i].off < edits[j].off
		}
		return edits[i].seq < edits[j].seq
	})
	var b strings.Builder
	// build constraint: keep an existing one, require go1.23 for range-over-func
	constraint := "go1.23"
	body := string(src)
	for _, cg := range f.Comments {
		if cg.Pos() > f.Package {
			break
		}
		for _, c := range cg.List {
			if strings.HasPrefix(c.Text, "//go:build ") {
				constraint = "(" + strings.TrimPrefix(c.Text, "//go:build ") + ") && go1.23"
				// blank the original line (same length, keeps offsets)
				o := fset.Position(c.Pos()).Offset
				body = body[:o] + "//" + strings.Repeat(" ", len(c.Text)-2) + body[o+len(c.Text):]
			}
		}
	}
	b.WriteString("//go:build " + constraint + "\n\n//line " + fn + ":1\n")
	last := 0
	for _, e := range edits {
		b.WriteString(body[last:e.off])
		b.WriteString(e.text)
		last = e.off + e.del
	}
	b.WriteString(body[last:])
	return []byte(b.String()), n, sites
}
