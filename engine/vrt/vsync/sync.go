// Package vsync replaces "sync" in the instrumented packages (import rewrite
// done by the instrumenter). Without an attached scheduler every type
// delegates to the real primitive; under the scheduler Lock, RLock, Cond.Wait,
// WaitGroup.Wait and Once.Do are scheduling points whose enabledness is
// computed from shim state, so a parked goroutine never blocks the runtime and
// lock-order deadlocks are detected instead of suffered.
package vsync

import (
	"runtime"
	"strings"
	"sync"

	"github.com/f1bonacc1/process-compose/src/vrt"
)

type Locker = sync.Locker
type Map = sync.Map
type Pool = sync.Pool

func OnceFunc(f func()) func()                                 { return sync.OnceFunc(f) }
func OnceValue[T any](f func() T) func() T                     { return sync.OnceValue(f) }
func OnceValues[T1, T2 any](f func() (T1, T2)) func() (T1, T2) { return sync.OnceValues(f) }

// ---------------------------------------------------------------- Mutex

type Mutex struct {
	mu   sync.Mutex
	held bool
}

func (m *Mutex) Lock() {
	s := vrt.Cur()
	if s == nil {
		m.mu.Lock()
		return
	}
	vrt.Point(&vrt.Op{Kind: "lock", Obj: m,
		Enabled: func() bool { return !m.held },
		Apply:   func() { m.held = true; s.Held++ }})
	vrt.Acquire(m)
}

func (m *Mutex) TryLock() bool {
	s := vrt.Cur()
	if s == nil {
		return m.mu.TryLock()
	}
	ok := false
	vrt.Point(&vrt.Op{Kind: "trylock", Obj: m, Apply: func() {
		if !m.held {
			m.held = true
			s.Held++
			ok = true
		}
	}})
	if ok {
		vrt.Acquire(m)
	}
	return ok
}

func (m *Mutex) Unlock() {
	s := vrt.Cur()
	if s == nil {
		m.mu.Unlock()
		return
	}
	vrt.Release(m)
	s.Mu.Lock()
	if !m.held {
		s.Mu.Unlock()
		panic("sync: unlock of unlocked mutex")
	}
	m.held = false
	s.Held--
	s.Mu.Unlock()
}

// ---------------------------------------------------------------- RWMutex

// RWMutex models sync.RWMutex including writer preference: once a Lock call has arrived, later RLock
// calls wait until that writer has acquired and released the lock (a recursive read lock with a writer
// in between deadlocks, as it does with the real one).
type RWMutex struct {
	mu      sync.RWMutex
	readers int
	writer  bool
	pending int // Lock calls that have arrived and not yet acquired
}

func (m *RWMutex) Lock() {
	s := vrt.Cur()
	if s == nil {
		m.mu.Lock()
		return
	}
	vrt.Point(&vrt.Op{Kind: "lock-arrive", Obj: m, Apply: func() { m.pending++ }})
	vrt.Point(&vrt.Op{Kind: "lock", Obj: m,
		Enabled: func() bool { return !m.writer && m.readers == 0 },
		Apply:   func() { m.writer = true; m.pending--; s.Held++ }})
	vrt.Acquire(m)
}

func (m *RWMutex) Unlock() {
	s := vrt.Cur()
	if s == nil {
		m.mu.Unlock()
		return
	}
	vrt.Release(m)
	s.Mu.Lock()
	if !m.writer {
		s.Mu.Unlock()
		panic("sync: Unlock of unlocked RWMutex")
	}
	m.writer = false
	s.Held--
	s.Mu.Unlock()
}

func (m *RWMutex) RLock() {
	s := vrt.Cur()
	if s == nil {
		m.mu.RLock()
		return
	}
	vrt.Point(&vrt.Op{Kind: "rlock", Obj: m,
		Enabled: func() bool { return !m.writer && m.pending == 0 },
		Apply:   func() { m.readers++; s.Held++ }})
	vrt.Acquire(m)
}

func (m *RWMutex) RUnlock() {
	s := vrt.Cur()
	if s == nil {
		m.mu.RUnlock()
		return
	}
	vrt.Release(m)
	s.Mu.Lock()
	if m.readers <= 0 {
		s.Mu.Unlock()
		panic("sync: RUnlock of unlocked RWMutex")
	}
	m.readers--
	s.Held--
	s.Mu.Unlock()
}

func (m *RWMutex) TryLock() bool {
	s := vrt.Cur()
	if s == nil {
		return m.mu.TryLock()
	}
	ok := false
	vrt.Point(&vrt.Op{Kind: "trylock", Obj: m, Apply: func() {
		if !m.writer && m.readers == 0 {
			m.writer = true
			s.Held++
			ok = true
		}
	}})
	return ok
}

func (m *RWMutex) TryRLock() bool {
	s := vrt.Cur()
	if s == nil {
		return m.mu.TryRLock()
	}
	ok := false
	vrt.Point(&vrt.Op{Kind: "trylock", Obj: m, Apply: func() {
		if !m.writer && m.pending == 0 {
			m.readers++
			s.Held++
			ok = true
		}
	}})
	return ok
}

type rlocker RWMutex

func (r *rlocker) Lock()   { (*RWMutex)(r).RLock() }
func (r *rlocker) Unlock() { (*RWMutex)(r).RUnlock() }

func (m *RWMutex) RLocker() Locker { return (*rlocker)(m) }

// ---------------------------------------------------------------- Cond

type ticket struct{ signalled bool }

type condState struct {
	mu      sync.Mutex
	real    *sync.Cond
	waiters []*ticket
}

// Cond may be copied after NewCond (process-compose does); copies share state.
type Cond struct {
	L  Locker
	st *condState
}

var condInit sync.Mutex

func NewCond(l Locker) *Cond { return &Cond{L: l, st: &condState{}} }

func (c *Cond) state() *condState {
	if c.st == nil {
		condInit.Lock()
		if c.st == nil {
			c.st = &condState{}
		}
		condInit.Unlock()
	}
	return c.st
}

func (c *Cond) realCond() *sync.Cond {
	st := c.state()
	st.mu.Lock()
	defer st.mu.Unlock()
	if st.real == nil {
		st.real = sync.NewCond(c.L)
	}
	return st.real
}

func (c *Cond) Wait() {
	s := vrt.Cur()
	if s == nil {
		c.realCond().Wait()
		return
	}
	st := c.state()
	// joining the wait list is a step of its own: a Broadcast between the caller's look at its predicate and
	// this point is lost unless the predicate is protected by c.L (which the caller still holds here)
	vrt.Point(&vrt.Op{Kind: "condwait-enter", Obj: st})
	tk := &ticket{}
	s.Mu.Lock()
	st.waiters = append(st.waiters, tk)
	s.Mu.Unlock()
	c.L.Unlock()
	vrt.Point(&vrt.Op{Kind: "condwait", Obj: st, Enabled: func() bool { return tk.signalled }})
	vrt.Acquire(st)
	c.L.Lock()
}

func (c *Cond) Signal() {
	s := vrt.Cur()
	if s == nil {
		c.realCond().Signal()
		return
	}
	st := c.state()
	vrt.Release(st)
	s.Mu.Lock()
	if len(st.waiters) > 0 {
		st.waiters[0].signalled = true
		st.waiters = st.waiters[1:]
	}
	s.Mu.Unlock()
}

func (c *Cond) Broadcast() {
	s := vrt.Cur()
	if s == nil {
		c.realCond().Broadcast()
		return
	}
	st := c.state()
	vrt.Release(st)
	s.Mu.Lock()
	for _, w := range st.waiters {
		w.signalled = true
	}
	st.waiters = nil
	s.Mu.Unlock()
}

// ---------------------------------------------------------------- WaitGroup

type WaitGroup struct {
	wg       sync.WaitGroup
	n        int
	parked   int // Wait calls that arrived while the counter was positive and have not been released
	released int // Wait calls released by the counter reaching zero that have not run on yet
}

func (w *WaitGroup) Add(delta int) {
	s := vrt.Cur()
	if s == nil {
		w.wg.Add(delta)
		return
	}
	if delta < 0 {
		vrt.Release(w)
	}
	s.Mu.Lock()
	if delta > 0 && w.n == 0 && w.released > 0 {
		// the real WaitGroup panics in the released waiter if it finds the counter positive again
		// ("WaitGroup is reused before previous Wait has returned"); whether it does depends on how
		// fast the waiter runs, which is exactly the schedule explored here
		s.ReportMisuse("waitgroup-reused-before-wait-returned:" + callerFunc())
	}
	w.n += delta
	neg := w.n < 0
	if w.n == 0 {
		w.released += w.parked
		w.parked = 0
	}
	s.Mu.Unlock()
	if neg {
		panic("sync: negative WaitGroup counter")
	}
}

func (w *WaitGroup) Done() { w.Add(-1) }

func (w *WaitGroup) Wait() {
	s := vrt.Cur()
	if s == nil {
		w.wg.Wait()
		return
	}
	s.Mu.Lock()
	waited := w.n > 0
	if waited {
		w.parked++
	}
	s.Mu.Unlock()
	vrt.Point(&vrt.Op{Kind: "wgwait", Obj: w, Enabled: func() bool { return w.n == 0 },
		Apply: func() {
			if waited && w.released > 0 {
				w.released--
			}
		}})
	vrt.Acquire(w)
}

// callerFunc names the first function outside this package on the stack.
func callerFunc() string {
	pc := make([]uintptr, 8)
	n := runtime.Callers(2, pc)
	fr := runtime.CallersFrames(pc[:n])
	for {
		f, more := fr.Next()
		if !strings.Contains(f.Function, "/vrt/vsync.") {
			name := f.Function
			if i := strings.LastIndex(name, "/"); i >= 0 {
				name = name[i+1:]
			}
			return name
		}
		if !more {
			return "?"
		}
	}
}

func (w *WaitGroup) Go(f func()) {
	w.Add(1)
	go func() {
		defer w.Done()
		f()
	}()
	vrt.AfterGo()
}

// ---------------------------------------------------------------- Once

type Once struct {
	once sync.Once
	m    Mutex
	done bool
}

func (o *Once) Do(f func()) {
	s := vrt.Cur()
	if s == nil {
		o.once.Do(f)
		return
	}
	o.m.Lock()
	defer o.m.Unlock()
	if !o.done {
		defer func() { o.done = true }()
		f()
	}
}
