// Package vatomic replaces "sync/atomic" in the instrumented packages. Every
// operation is an (always enabled) scheduling point under the scheduler.
package vatomic

import (
	"sync/atomic"
	"unsafe"

	"github.com/f1bonacc1/process-compose/src/vrt"
)

func pt() { vrt.Yield("atomic") }

// pto: the scheduling point, then the happens-before edges of a sequentially consistent atomic operation
func pto(obj any) { vrt.Yield("atomic"); vrt.AcqRel(obj) }

type Value = atomic.Value
type Pointer[T any] struct{ v atomic.Pointer[T] }

func (p *Pointer[T]) Load() *T                    { pto(p); return p.v.Load() }
func (p *Pointer[T]) Store(x *T)                  { pto(p); p.v.Store(x) }
func (p *Pointer[T]) Swap(x *T) *T                { pto(p); return p.v.Swap(x) }
func (p *Pointer[T]) CompareAndSwap(o, n *T) bool { pto(p); return p.v.CompareAndSwap(o, n) }

type Bool struct{ v atomic.Bool }

func (b *Bool) Load() bool                    { pto(b); return b.v.Load() }
func (b *Bool) Store(x bool)                  { pto(b); b.v.Store(x) }
func (b *Bool) Swap(x bool) bool              { pto(b); return b.v.Swap(x) }
func (b *Bool) CompareAndSwap(o, n bool) bool { pto(b); return b.v.CompareAndSwap(o, n) }

func LoadPointer(a *unsafe.Pointer) unsafe.Pointer     { pto(a); return atomic.LoadPointer(a) }
func StorePointer(a *unsafe.Pointer, v unsafe.Pointer) { pto(a); atomic.StorePointer(a, v) }
func SwapPointer(a *unsafe.Pointer, v unsafe.Pointer) unsafe.Pointer {
	pto(a)
	return atomic.SwapPointer(a, v)
}
func CompareAndSwapPointer(a *unsafe.Pointer, o, n unsafe.Pointer) bool {
	pto(a)
	return atomic.CompareAndSwapPointer(a, o, n)
}

type Int32 struct{ v atomic.Int32 }

func (x *Int32) Load() int32                    { pto(x); return x.v.Load() }
func (x *Int32) Store(v int32)                  { pto(x); x.v.Store(v) }
func (x *Int32) Swap(v int32) int32             { pto(x); return x.v.Swap(v) }
func (x *Int32) CompareAndSwap(o, n int32) bool { pto(x); return x.v.CompareAndSwap(o, n) }
func (x *Int32) Add(d int32) int32              { pto(x); return x.v.Add(d) }

func LoadInt32(a *int32) int32          { pto(a); return atomic.LoadInt32(a) }
func StoreInt32(a *int32, v int32)      { pto(a); atomic.StoreInt32(a, v) }
func SwapInt32(a *int32, v int32) int32 { pto(a); return atomic.SwapInt32(a, v) }
func AddInt32(a *int32, d int32) int32  { pto(a); return atomic.AddInt32(a, d) }
func CompareAndSwapInt32(a *int32, o, n int32) bool {
	pto(a)
	return atomic.CompareAndSwapInt32(a, o, n)
}

type Int64 struct{ v atomic.Int64 }

func (x *Int64) Load() int64                    { pto(x); return x.v.Load() }
func (x *Int64) Store(v int64)                  { pto(x); x.v.Store(v) }
func (x *Int64) Swap(v int64) int64             { pto(x); return x.v.Swap(v) }
func (x *Int64) CompareAndSwap(o, n int64) bool { pto(x); return x.v.CompareAndSwap(o, n) }
func (x *Int64) Add(d int64) int64              { pto(x); return x.v.Add(d) }

func LoadInt64(a *int64) int64          { pto(a); return atomic.LoadInt64(a) }
func StoreInt64(a *int64, v int64)      { pto(a); atomic.StoreInt64(a, v) }
func SwapInt64(a *int64, v int64) int64 { pto(a); return atomic.SwapInt64(a, v) }
func AddInt64(a *int64, d int64) int64  { pto(a); return atomic.AddInt64(a, d) }
func CompareAndSwapInt64(a *int64, o, n int64) bool {
	pto(a)
	return atomic.CompareAndSwapInt64(a, o, n)
}

type Uint32 struct{ v atomic.Uint32 }

func (x *Uint32) Load() uint32                    { pto(x); return x.v.Load() }
func (x *Uint32) Store(v uint32)                  { pto(x); x.v.Store(v) }
func (x *Uint32) Swap(v uint32) uint32            { pto(x); return x.v.Swap(v) }
func (x *Uint32) CompareAndSwap(o, n uint32) bool { pto(x); return x.v.CompareAndSwap(o, n) }
func (x *Uint32) Add(d uint32) uint32             { pto(x); return x.v.Add(d) }

func LoadUint32(a *uint32) uint32           { pto(a); return atomic.LoadUint32(a) }
func StoreUint32(a *uint32, v uint32)       { pto(a); atomic.StoreUint32(a, v) }
func SwapUint32(a *uint32, v uint32) uint32 { pto(a); return atomic.SwapUint32(a, v) }
func AddUint32(a *uint32, d uint32) uint32  { pto(a); return atomic.AddUint32(a, d) }
func CompareAndSwapUint32(a *uint32, o, n uint32) bool {
	pto(a)
	return atomic.CompareAndSwapUint32(a, o, n)
}

type Uint64 struct{ v atomic.Uint64 }

func (x *Uint64) Load() uint64                    { pto(x); return x.v.Load() }
func (x *Uint64) Store(v uint64)                  { pto(x); x.v.Store(v) }
func (x *Uint64) Swap(v uint64) uint64            { pto(x); return x.v.Swap(v) }
func (x *Uint64) CompareAndSwap(o, n uint64) bool { pto(x); return x.v.CompareAndSwap(o, n) }
func (x *Uint64) Add(d uint64) uint64             { pto(x); return x.v.Add(d) }

func LoadUint64(a *uint64) uint64           { pto(a); return atomic.LoadUint64(a) }
func StoreUint64(a *uint64, v uint64)       { pto(a); atomic.StoreUint64(a, v) }
func SwapUint64(a *uint64, v uint64) uint64 { pto(a); return atomic.SwapUint64(a, v) }
func AddUint64(a *uint64, d uint64) uint64  { pto(a); return atomic.AddUint64(a, d) }
func CompareAndSwapUint64(a *uint64, o, n uint64) bool {
	pto(a)
	return atomic.CompareAndSwapUint64(a, o, n)
}

type Uintptr struct{ v atomic.Uintptr }

func (x *Uintptr) Load() uintptr                    { pto(x); return x.v.Load() }
func (x *Uintptr) Store(v uintptr)                  { pto(x); x.v.Store(v) }
func (x *Uintptr) Swap(v uintptr) uintptr           { pto(x); return x.v.Swap(v) }
func (x *Uintptr) CompareAndSwap(o, n uintptr) bool { pto(x); return x.v.CompareAndSwap(o, n) }
func (x *Uintptr) Add(d uintptr) uintptr            { pto(x); return x.v.Add(d) }

func LoadUintptr(a *uintptr) uintptr            { pto(a); return atomic.LoadUintptr(a) }
func StoreUintptr(a *uintptr, v uintptr)        { pto(a); atomic.StoreUintptr(a, v) }
func SwapUintptr(a *uintptr, v uintptr) uintptr { pto(a); return atomic.SwapUintptr(a, v) }
func AddUintptr(a *uintptr, d uintptr) uintptr  { pto(a); return atomic.AddUintptr(a, d) }
func CompareAndSwapUintptr(a *uintptr, o, n uintptr) bool {
	pto(a)
	return atomic.CompareAndSwapUintptr(a, o, n)
}
