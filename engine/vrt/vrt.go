// Package vrt is the runtime injected (by `go build -overlay`) into the
// process-compose module under test. It provides the cooperative scheduler the
// model-checking harness uses to own every scheduling decision: goroutines of
// the code under test call Point (through the vsync / vatomic shims, the fake
// OS and the statements added by the instrumenter) and park until the
// controller grants them. With no scheduler attached every entry point is a
// cheap no-op, so the same binary can run free (e.g. under -race).
package vrt

import (
	"bytes"
	"fmt"
	"iter"
	"reflect"
	"runtime"
	"sort"
	"strconv"
	"sync"
	"sync/atomic"
)

// Op is the operation a parked goroutine is about to perform.
type Op struct {
	Kind    string      // lock, rlock, condwait, wgwait, once, atomic, yield, read, wait, api, maporder ...
	Tag     string      // free text (site / api call / pipe name)
	Obj     any         // identity of the object operated on (pointer), may be nil
	Enabled func() bool // nil = always enabled; evaluated by the controller at quiescence
	Apply   func()      // state change performed by the controller at grant time
	Env     bool        // counts as an environment event (API request issue), not as a thread step
	N       int         // maporder: number of keys
	Choice  int         // maporder: filled by the controller before the grant
}

// Thread is a managed goroutine.
type Thread struct {
	ID      int    // logical id: registration order (ties sorted by Key)
	Key     string // spawn-tree key: parentKey.childSeq
	Label   string // tag of the first operation
	goid    uint64
	park    chan struct{}
	pending *Op
	kids    int
	Steps   int
	seq     int      // index into vector clocks (registration order)
	vc      []uint32 // happens-before vector clock of this thread
}

func (t *Thread) Pending() *Op { return t.pending }

// IsEnabled reports whether the pending operation can proceed now.
func (t *Thread) IsEnabled() bool {
	op := t.pending
	if op == nil {
		return false
	}
	return op.Enabled == nil || op.Enabled()
}

// Sched is one execution's scheduler state.
type Sched struct {
	Mu       sync.Mutex // protects all shim state of this execution
	threads  []*Thread
	newReg   []*Thread
	byGoid   map[uint64]*Thread
	ctrl     uint64
	Held     int // shim mutexes currently held (by anybody)
	unknown  map[string]int
	objOrd   map[any]int
	PermHook func(site string, n int) []int // map-order decisions outside Point (nil = sorted)
	MapSites func(site string) bool         // which MapRange sites are choice points under the scheduler
	// happens-before tracking (vector clocks over the synchronisation the shims see) and the
	// accesses to shared maps reported by the instrumented code
	nseq   int
	clocks map[any][]uint32
	maps   map[uintptr]*mapState
	Races  []Race
	raceK  map[string]bool
	// Misuses are uses of a synchronisation primitive on which the real one panics (or may panic, depending
	// on timing the scheduler does not model), recorded by the shims instead of crashing the worker.
	Misuses []string
}

// Race is a pair of accesses to the same map, at least one of them a write, that no chain of
// lock / unlock, wait-group, once, condition-variable, atomic or goroutine-start edges orders.
type Race struct {
	Field        string
	SiteA, SiteB string // "w:" / "r:" + function of the earlier and of the later access
}

type mapAccess struct {
	seq   int
	clock uint32
	site  string
}

type mapState struct {
	ref   any // the map itself: kept alive for the execution so that its address is never reused by another map
	write *mapAccess
	reads map[int]*mapAccess
}

var cur atomic.Pointer[Sched]

// Cur returns the attached scheduler or nil.
func Cur() *Sched { return cur.Load() }

// NewSched creates a scheduler whose controller is the calling goroutine.
func NewSched() *Sched {
	return &Sched{byGoid: map[uint64]*Thread{}, ctrl: goid(), objOrd: map[any]int{}, unknown: map[string]int{},
		clocks: map[any][]uint32{}, maps: map[uintptr]*mapState{}, raceK: map[string]bool{}}
}

func (s *Sched) Attach() { cur.Store(s) }
func (s *Sched) Detach() { cur.CompareAndSwap(s, nil) }

// IsController reports whether the caller is the controller goroutine.
func (s *Sched) IsController() bool { return goid() == s.ctrl }

// Collect integrates goroutines that registered since the last call (sorted by
// spawn key so that logical ids do not depend on the Go runtime's run order)
// and returns all managed threads. Call only at quiescence.
func (s *Sched) Collect() []*Thread {
	s.Mu.Lock()
	defer s.Mu.Unlock()
	if len(s.newReg) > 0 {
		sort.SliceStable(s.newReg, func(i, j int) bool { return s.newReg[i].Key < s.newReg[j].Key })
		for _, t := range s.newReg {
			t.ID = len(s.threads)
			s.threads = append(s.threads, t)
		}
		s.newReg = nil
	}
	return s.threads
}

// Grant lets t perform its pending operation and run to its next Point.
func (s *Sched) Grant(t *Thread) {
	s.Mu.Lock()
	op := t.pending
	if op == nil {
		s.Mu.Unlock()
		panic("vrt: grant of a thread with no pending operation")
	}
	t.pending = nil
	t.Steps++
	if op.Apply != nil {
		op.Apply()
	}
	s.Mu.Unlock()
	t.park <- struct{}{}
}

// ObjOrd names an object by order of first use in this execution.
func (s *Sched) ObjOrd(o any) int {
	if o == nil {
		return -1
	}
	if n, ok := s.objOrd[o]; ok {
		return n
	}
	n := len(s.objOrd)
	s.objOrd[o] = n
	return n
}

func (s *Sched) register(g uint64, op *Op) *Thread {
	// caller holds s.Mu
	parent := creatorGoid()
	t := &Thread{goid: g, park: make(chan struct{}, 1), Label: op.Kind + ":" + op.Tag}
	if pt := s.byGoid[parent]; pt != nil {
		t.Key = pt.Key + "." + strconv.Itoa(pt.kids)
		pt.kids++
	} else {
		// spawned by the controller (harness threads) or by an unmanaged goroutine:
		// keyed by the label of the first operation, counted per label
		pre := "u:"
		if parent == s.ctrl {
			pre = "c:"
		}
		t.Key = pre + t.Label + "." + strconv.Itoa(s.unknown[t.Label])
		s.unknown[t.Label]++
	}
	t.seq = s.nseq
	s.nseq++
	if pt := s.byGoid[parent]; pt != nil {
		// goroutine start: everything the parent did before the go statement happens before the child
		t.vc = append([]uint32(nil), pt.vc...)
	}
	vcSet(&t.vc, t.seq, 1)
	s.byGoid[g] = t
	s.newReg = append(s.newReg, t)
	return t
}

// ---------------------------------------------------------------------------
// happens-before

func vcSet(v *[]uint32, i int, x uint32) {
	for len(*v) <= i {
		*v = append(*v, 0)
	}
	(*v)[i] = x
}

func vcJoin(dst *[]uint32, src []uint32) {
	for len(*dst) < len(src) {
		*dst = append(*dst, 0)
	}
	for i, x := range src {
		if x > (*dst)[i] {
			(*dst)[i] = x
		}
	}
}

func (s *Sched) thread() *Thread {
	g := goid()
	if g == s.ctrl {
		return nil
	}
	return s.byGoid[g]
}

// Acquire: what was released on obj before happens before what the calling thread does next.
func Acquire(obj any) {
	s := cur.Load()
	if s == nil {
		return
	}
	s.Mu.Lock()
	if t := s.thread(); t != nil {
		vcJoin(&t.vc, s.clocks[obj])
	}
	s.Mu.Unlock()
}

// Release publishes what the calling thread has done so far on obj.
func Release(obj any) {
	s := cur.Load()
	if s == nil {
		return
	}
	s.Mu.Lock()
	if t := s.thread(); t != nil {
		c := s.clocks[obj]
		vcJoin(&c, t.vc)
		s.clocks[obj] = c
		t.vc[t.seq]++
	}
	s.Mu.Unlock()
}

// AcqRel is both (atomic operations, treated as sequentially consistent).
func AcqRel(obj any) {
	Acquire(obj)
	Release(obj)
}

// MapAccess is inserted by the instrumenter before every statement that reads or writes a map held in
// a struct field. Accesses by the controller (harness queries at quiescence) and by goroutines the
// scheduler does not manage are not recorded.
func MapAccess(m any, field, site string, write bool) {
	s := cur.Load()
	if s == nil {
		return
	}
	id := reflect.ValueOf(m).Pointer()
	if id == 0 {
		return
	}
	s.Mu.Lock()
	defer s.Mu.Unlock()
	t := s.thread()
	if t == nil {
		return
	}
	st := s.maps[id]
	if st == nil {
		st = &mapState{ref: m, reads: map[int]*mapAccess{}}
		s.maps[id] = st
	}
	before := func(a *mapAccess) bool { return a.seq == t.seq || (a.seq < len(t.vc) && a.clock <= t.vc[a.seq]) }
	report := func(a *mapAccess, ak string, bk string) {
		r := Race{Field: field, SiteA: ak + a.site, SiteB: bk + site}
		k := r.Field + "|" + r.SiteA + "|" + r.SiteB
		if !s.raceK[k] {
			s.raceK[k] = true
			s.Races = append(s.Races, r)
		}
	}
	me := &mapAccess{seq: t.seq, clock: t.vc[t.seq], site: site}
	if write {
		if st.write != nil && !before(st.write) {
			report(st.write, "w:", "w:")
		}
		for _, r := range st.reads {
			if !before(r) {
				report(r, "r:", "w:")
			}
		}
		st.write = me
		st.reads = map[int]*mapAccess{}
	} else {
		if st.write != nil && !before(st.write) {
			report(st.write, "w:", "r:")
		}
		st.reads[t.seq] = me
	}
}

// Point parks the calling goroutine until the controller grants op.
func Point(op *Op) {
	s := cur.Load()
	if s == nil {
		if op.Apply != nil {
			op.Apply()
		}
		return
	}
	g := goid()
	if g == s.ctrl {
		// the controller never parks; it may only operate on free objects
		s.Mu.Lock()
		if op.Enabled != nil && !op.Enabled() {
			s.Mu.Unlock()
			panic("vrt: controller would block on " + op.Kind + " " + op.Tag)
		}
		if op.Apply != nil {
			op.Apply()
		}
		s.Mu.Unlock()
		return
	}
	s.Mu.Lock()
	t := s.byGoid[g]
	if t == nil {
		t = s.register(g, op)
	}
	t.pending = op
	s.Mu.Unlock()
	<-t.park
}

// ReportMisuse records a use of a primitive on which the real implementation panics. The caller holds s.Mu.
func (s *Sched) ReportMisuse(what string) {
	for _, m := range s.Misuses {
		if m == what {
			return
		}
	}
	s.Misuses = append(s.Misuses, what)
}

// Yield is an always-enabled scheduling point.
func Yield(tag string) {
	if cur.Load() == nil {
		return
	}
	Point(&Op{Kind: "yield", Tag: tag})
}

// AfterGo is inserted after every go statement of the instrumented packages:
// the parent parks so that the child has registered before the parent goes on.
func AfterGo() { Yield("go") }

// ---------------------------------------------------------------------------
// map iteration order

// PermHook decides map-iteration orders when no scheduler is attached (engine
// E2). nil means sorted keys.
var PermHook func(site string, n int) []int

// MapRange iterates m in a controlled order: keys are snapshotted and sorted;
// the order is then permuted by the scheduler / hook. Values are looked up at
// visit time and keys deleted meanwhile are skipped.
func MapRange[M ~map[K]V, K comparable, V any](site string, m M) iter.Seq2[K, V] {
	return func(yield func(K, V) bool) {
		keys := make([]K, 0, len(m))
		for k := range m {
			keys = append(keys, k)
		}
		sortKeys(keys)
		var perm []int
		if len(keys) > 1 {
			if s := cur.Load(); s != nil {
				if s.MapSites != nil && s.MapSites(site) && goid() != s.ctrl {
					op := &Op{Kind: "maporder", Tag: site, N: len(keys)}
					Point(op)
					perm = Perm(len(keys), op.Choice)
				}
			} else if h := PermHook; h != nil {
				perm = h(site, len(keys))
			}
		}
		for i := range keys {
			k := keys[i]
			if perm != nil {
				k = keys[perm[i]]
			}
			v, ok := m[k]
			if !ok {
				continue
			}
			if !yield(k, v) {
				return
			}
		}
	}
}

func sortKeys[K comparable](keys []K) {
	if ks, ok := any(keys).([]string); ok {
		sort.Strings(ks)
		return
	}
	sort.Slice(keys, func(i, j int) bool { return fmt.Sprint(keys[i]) < fmt.Sprint(keys[j]) })
}

// NumPerms is the number of iteration orders tried for n keys (index 0 is the
// sorted order): all n! for n <= 4, otherwise identity, rotations, reversal
// and adjacent transpositions.
func NumPerms(n int) int {
	switch {
	case n <= 1:
		return 1
	case n <= 4:
		f := 1
		for i := 2; i <= n; i++ {
			f *= i
		}
		return f
	}
	return 1 + (n - 1) + 1 + (n - 1)
}

// Perm returns the idx-th iteration order of n keys.
func Perm(n, idx int) []int {
	p := make([]int, n)
	for i := range p {
		p[i] = i
	}
	if idx <= 0 || n <= 1 {
		return p
	}
	if n <= 4 {
		// idx-th permutation in lexicographic order (factorial number system)
		avail := append([]int(nil), p...)
		f := 1
		for i := 2; i < n; i++ {
			f *= i
		}
		for i := 0; i < n; i++ {
			j := idx / f
			idx %= f
			p[i] = avail[j]
			avail = append(avail[:j], avail[j+1:]...)
			if n-1-i > 0 {
				f /= (n - 1 - i)
			}
		}
		return p
	}
	switch {
	case idx <= n-1: // rotations
		for i := range p {
			p[i] = (i + idx) % n
		}
	case idx == n: // reversal
		for i := range p {
			p[i] = n - 1 - i
		}
	default: // adjacent transposition
		j := idx - n - 1
		p[j], p[j+1] = p[j+1], p[j]
	}
	return p
}

// ---------------------------------------------------------------------------
// goroutine identity

// GoidFunc, when set (harness start-up), replaces the runtime.Stack based goroutine id lookup.
var GoidFunc func() uint64

func goid() uint64 {
	if f := GoidFunc; f != nil {
		return f()
	}
	var buf [64]byte
	n := runtime.Stack(buf[:], false)
	// "goroutine 123 ["
	b := buf[10:n]
	i := bytes.IndexByte(b, ' ')
	if i < 0 {
		return 0
	}
	id, _ := strconv.ParseUint(string(b[:i]), 10, 64)
	return id
}

// Goid is exported for the harness.
func Goid() uint64 { return goid() }

var stackBuf = make([]byte, 1<<16) // only used under Sched.Mu

func creatorGoid() uint64 {
	buf := stackBuf
	n := runtime.Stack(buf, false)
	b := buf[:n]
	i := bytes.LastIndex(b, []byte("created by "))
	if i < 0 {
		return 0
	}
	b = b[i:]
	j := bytes.Index(b, []byte(" in goroutine "))
	if j < 0 {
		return 0
	}
	b = b[j+len(" in goroutine "):]
	k := bytes.IndexAny(b, "\n ")
	if k < 0 {
		k = len(b)
	}
	id, _ := strconv.ParseUint(string(b[:k]), 10, 64)
	return id
}
