package vh

import (
	"fmt"
	"strings"
)

// pre returns the trace up to (excluding) the cleanup marker.
func (w *World) pre() []Event {
	for i, e := range w.trace {
		if e.Kind == "cleanup" {
			return w.trace[:i]
		}
	}
	return w.trace
}

func key0(name string) string { return name + "#0" }

// baseOf returns the configured name of a fake-process key.
func baseOf(key string) string {
	if i := strings.LastIndex(key, "#"); i >= 0 {
		return key[:i]
	}
	return key
}

// statusAt returns the last reported status of a process before trace position pos.
func statusAt(tr []Event, proc string, pos int) string {
	st := "Pending"
	for i := 0; i < pos && i < len(tr); i++ {
		if tr[i].Kind == "state" && tr[i].Proc == proc {
			st = tr[i].Data
		}
	}
	return st
}

func findEvent(tr []Event, from int, pred func(Event) bool) int {
	for i := from; i < len(tr); i++ {
		if pred(tr[i]) {
			return i
		}
	}
	return -1
}

func viol(prop, sig, format string, a ...any) Violation {
	return Violation{Prop: prop, Sig: sig, Msg: fmt.Sprintf(format, a...)}
}

// yamlProc renders one process entry.
type PC struct {
	Name                     string
	Lines                    []string // extra yaml lines at process level (already indented by 4)
	Restart                  string
	Backoff                  int
	Max                      int
	ExitOnEnd, ExitOnSkipped bool
	Deps                     map[string]string // name -> condition
	DepOrder                 []string
}

func (p PC) yaml() string {
	var b strings.Builder
	fmt.Fprintf(&b, "  %s:\n    command: \"fake %s\"\n", p.Name, p.Name)
	if p.Restart != "" || p.Backoff != 0 || p.Max != 0 || p.ExitOnEnd || p.ExitOnSkipped {
		b.WriteString("    availability:\n")
		if p.Restart != "" {
			fmt.Fprintf(&b, "      restart: %q\n", p.Restart)
		}
		if p.Backoff != 0 {
			fmt.Fprintf(&b, "      backoff_seconds: %d\n", p.Backoff)
		}
		if p.Max != 0 {
			fmt.Fprintf(&b, "      max_restarts: %d\n", p.Max)
		}
		if p.ExitOnEnd {
			b.WriteString("      exit_on_end: true\n")
		}
		if p.ExitOnSkipped {
			b.WriteString("      exit_on_skipped: true\n")
		}
	}
	if len(p.Deps) > 0 {
		b.WriteString("    depends_on:\n")
		order := p.DepOrder
		if order == nil {
			for k := range p.Deps {
				order = append(order, k)
			}
			sortStrings(order)
		}
		for _, d := range order {
			fmt.Fprintf(&b, "      %s:\n        condition: %s\n", d, p.Deps[d])
		}
	}
	for _, l := range p.Lines {
		b.WriteString("    " + l + "\n")
	}
	return b.String()
}

func projectYAML(global []string, procs ...PC) string {
	var b strings.Builder
	b.WriteString("version: \"0.5\"\n")
	for _, g := range global {
		b.WriteString(g + "\n")
	}
	b.WriteString("processes:\n")
	for _, p := range procs {
		b.WriteString(p.yaml())
	}
	return b.String()
}

func sortStrings(s []string) {
	for i := 1; i < len(s); i++ {
		for j := i; j > 0 && s[j] < s[j-1]; j-- {
			s[j], s[j-1] = s[j-1], s[j]
		}
	}
}

func exits(codes ...int) [][]Action {
	var l [][]Action
	for _, c := range codes {
		l = append(l, []Action{Exit(c)})
	}
	return l
}
