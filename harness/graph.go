package vh

// Dependency-graph scenarios shared by C01, C04, C05, C09, C12.

import (
	"fmt"
	"strings"
)

// GNode describes one configured process of a graph scenario.
type GNode struct {
	Name      string
	Deps      map[string]string // dependency -> condition
	Beh       string            // ok (exit 0) | fail (exit Code or 1) | daemon | startfail | baddir
	Code      int               // exit code for "fail" (default 1)
	ReadyLine bool              // has ready_log_line READY
	PrintsRdy bool              // prints READY before doing Beh
	Probe     string            // "" | ok | fail : exec readiness probe answering ok / always fail
	Restart   string
	Max       int
	ExitOnEnd bool
	ExitOnSk  bool
	Disabled  bool
	Extra     []string
}

const (
	cCompleted = "process_completed"
	cSucc      = "process_completed_successfully"
	cHealthy   = "process_healthy"
	cLogReady  = "process_log_ready"
	cStarted   = "process_started"
)

var allConds = []string{cCompleted, cSucc, cHealthy, cLogReady, cStarted}

func condShort(c string) string {
	switch c {
	case cCompleted:
		return "comp"
	case cSucc:
		return "succ"
	case cHealthy:
		return "healthy"
	case cLogReady:
		return "logrdy"
	case cStarted:
		return "started"
	}
	return c
}

func probeCmd(name string) string { return "probe-ready-" + name }

// buildGraph renders the YAML and the fake-OS scripts of a graph.
func buildGraph(nodes []GNode, global []string) (string, map[string]*ProcScript, map[string][]string) {
	var pcs []PC
	procs := map[string]*ProcScript{}
	aux := map[string][]string{}
	for _, n := range nodes {
		pc := PC{Name: n.Name, Deps: n.Deps, Restart: n.Restart, Max: n.Max, ExitOnEnd: n.ExitOnEnd, ExitOnSkipped: n.ExitOnSk}
		if n.ReadyLine {
			pc.Lines = append(pc.Lines, `ready_log_line: "READY"`)
		}
		if n.Probe != "" {
			pc.Lines = append(pc.Lines, "readiness_probe:", "  exec:", fmt.Sprintf("    command: %q", probeCmd(n.Name)),
				"  period_seconds: 1", "  failure_threshold: 2")
			if n.Probe == "ok" {
				aux[probeCmd(n.Name)] = []string{"ok"}
			} else {
				aux[probeCmd(n.Name)] = []string{"fail"}
			}
		}
		if n.Disabled {
			pc.Lines = append(pc.Lines, "disabled: true")
		}
		if n.Beh == "baddir" {
			pc.Lines = append(pc.Lines, `working_dir: "/nonexistent-dir-for-verif"`)
		}
		pc.Lines = append(pc.Lines, n.Extra...)
		pcs = append(pcs, pc)
		ps := &ProcScript{}
		var script []Action
		if n.PrintsRdy {
			script = append(script, Out("READY\n"))
		}
		switch n.Beh {
		case "ok":
			script = append(script, Exit(0))
		case "fail":
			c := n.Code
			if c == 0 {
				c = 1
			}
			script = append(script, Exit(c))
		case "startfail":
			ps.StartFail = []bool{true}
		}
		ps.Launches = [][]Action{script}
		procs[n.Name] = ps
	}
	return projectYAML(global, pcs...), procs, aux
}

func graphID(nodes []GNode) string {
	var parts []string
	for _, n := range nodes {
		s := n.Name + ":" + n.Beh
		if n.PrintsRdy {
			s += "+rdy"
		}
		if n.Probe != "" {
			s += "+p" + n.Probe
		}
		if n.Restart != "" {
			s += "+" + n.Restart
		}
		if n.ExitOnEnd {
			s += "+eoe"
		}
		if n.ExitOnSk {
			s += "+eos"
		}
		if n.Disabled {
			s += "+dis"
		}
		var ds []string
		for d, c := range n.Deps {
			ds = append(ds, d+"."+condShort(c))
		}
		sortStrings(ds)
		if len(ds) > 0 {
			s += "<" + strings.Join(ds, ",")
		}
		parts = append(parts, s)
	}
	return strings.Join(parts, "_")
}

// depNodeFor returns a dependency node that can satisfy / fail the condition.
// variant: "sat" - behaves so that the condition becomes true; "unsat" - ends without satisfying it.
func depNodeFor(name, cond, variant string) GNode {
	n := GNode{Name: name}
	switch cond {
	case cCompleted:
		n.Beh = "ok"
		if variant == "unsat" {
			n.Beh = "fail" // still completes: process_completed cannot be failed by exiting
		}
	case cSucc:
		n.Beh = "ok"
		if variant == "unsat" {
			n.Beh = "fail"
		}
	case cHealthy:
		n.Beh = "daemon"
		n.Probe = "ok"
		if variant == "unsat" {
			n.Beh = "ok" // exits before any probe succeeds
			n.Probe = "fail"
		}
	case cLogReady:
		n.ReadyLine = true
		n.Beh = "daemon"
		n.PrintsRdy = true
		if variant == "unsat" {
			n.Beh = "ok"
			n.PrintsRdy = false
		}
	case cStarted:
		n.Beh = "daemon"
		if variant == "unsat" {
			n.Beh = "ok"
		}
	}
	return n
}

// ---- evaluation of dependency conditions on a trace prefix -----------------

type gcfg struct {
	nodes map[string]GNode
}

func newGcfg(nodes []GNode) *gcfg {
	g := &gcfg{nodes: map[string]GNode{}}
	for _, n := range nodes {
		g.nodes[n.Name] = n
	}
	return g
}

// sat reports whether dependency dep satisfies cond on tr[:upto] (weakest reading).
func (g *gcfg) sat(tr []Event, upto int, dep, cond string, depth int) bool {
	key := key0(dep)
	lastExit := -1
	lastExitCode := 0
	started := false
	terminalState := ""
	for i := 0; i < upto; i++ {
		e := tr[i]
		switch {
		case e.Kind == "exit" && e.Proc == key:
			lastExit, lastExitCode = i, e.Code
		case (e.Kind == "start" || e.Kind == "startfail") && e.Proc == key:
			started = true
		case e.Kind == "state" && e.Proc == dep:
			switch e.Data {
			case "Skipped", "Error", "Completed":
				terminalState = e.Data
			case "Terminating":
				if !started { // stopped before it was ever launched: it will never run
					terminalState = e.Data
				}
			}
		}
	}
	switch cond {
	case cCompleted:
		return lastExit >= 0 || terminalState != ""
	case cSucc:
		if terminalState == "Skipped" || terminalState == "Error" {
			return false
		}
		return lastExit >= 0 && lastExitCode == 0
	case cHealthy:
		for i := 0; i < upto; i++ {
			if tr[i].Kind == "aux-ans" && tr[i].Proc == "aux:"+probeCmd(dep) && tr[i].Data == "ok" {
				return true
			}
		}
		return false
	case cLogReady:
		for i := 0; i < upto; i++ {
			if tr[i].Kind == "write" && tr[i].Proc == key && strings.Contains(tr[i].Data, "READY") {
				return true
			}
		}
		return false
	case cStarted:
		if started {
			return true
		}
		if depth > 8 {
			return false
		}
		n, ok := g.nodes[dep]
		if !ok {
			return true
		}
		for d, c := range n.Deps {
			if dn, ok := g.nodes[d]; ok && dn.Disabled {
				continue
			}
			if !g.sat(tr, upto, d, c, depth+1) {
				return false
			}
		}
		return true
	}
	return true
}

// depStood describes how a dependency stood at trace position upto (for signatures).
func depStood(tr []Event, upto int, dep string) string {
	st := statusAt(tr, dep, upto)
	started := false
	for i := 0; i < upto; i++ {
		if tr[i].Kind == "start" && tr[i].Proc == key0(dep) {
			started = true
		}
	}
	if !started {
		for i := 0; i < upto; i++ {
			if tr[i].Kind == "api-call" && (tr[i].Data == "stop("+dep+")" || tr[i].Data == "restart("+dep+")" || strings.HasPrefix(tr[i].Data, "shutdown")) {
				return "stopped-pending"
			}
		}
	}
	switch st {
	case "Pending":
		return "pending"
	case "Running", "Launching", "Launched":
		return "running"
	case "Restarting":
		return "restarting"
	case "Skipped":
		return "skipped"
	case "Error":
		return "error"
	case "Terminating":
		if !started {
			return "stopped-pending"
		}
		return "terminating"
	case "Completed":
		if !started {
			return "stopped-pending"
		}
		return "ended"
	}
	return strings.ToLower(st)
}

// checkLaunchGating is the C01 oracle: every start of X is preceded by Sat of all its dependencies.
func (g *gcfg) checkLaunchGating(tr []Event) []Violation {
	var vs []Violation
	for i, e := range tr {
		if e.Kind != "start" && e.Kind != "startfail" {
			continue
		}
		name := baseOf(e.Proc)
		n, ok := g.nodes[name]
		if !ok {
			continue
		}
		for d, c := range n.Deps {
			if dn, ok := g.nodes[d]; ok && dn.Disabled {
				continue
			}
			if !g.sat(tr, i, d, c, 0) {
				vs = append(vs, viol("C01", "launch-before-sat:"+c+":"+depStood(tr, i, d),
					"%s launched (t=%v) although %s has not met %s (dependency status %s)", e.Proc, e.T, d, c, statusAt(tr, d, i)))
			}
		}
	}
	return vs
}
