package vh

// C16 Loading is deterministic, applies defaults, gives each replica its own config.

import (
	"bytes"
	"encoding/json"
	"fmt"
	"math"
	"os"
	"sort"
	"strings"
	"text/template"

	"github.com/f1bonacc1/process-compose/src/types"
)

func init() { registry["C16"] = &propDef{e2: c16E2} }

type c16Input struct {
	Replicas  int    `json:"replicas"`
	GlobalVar bool   `json:"global_vars"`
	LocalVar  bool   `json:"local_vars"`
	Probes    string `json:"probes"`                         // none | exec | http | both
	Only      string `json:"only_templated_field,omitempty"` // when set, this is the only field that carries a template
	Disabled  bool   `json:"disabled,omitempty"`             // the templated process is disabled: true (it can be started by hand)
	Nested    bool   `json:"nested_var,omitempty"`           // a process variable whose value is a mapping, used as {{.DB.host}}
	NameKey   bool   `json:"name_key,omitempty"`             // the process entry carries a name: key that differs from its key under processes:
	Split     bool   `json:"split,omitempty"`                // a second file mentions the processes again without setting anything (is_tty: false)
	Flags     string `json:"flags,omitempty"`                // further options of the templated process that do not change what is rendered
	Mode      string `json:"map_order"`
}

func (in c16Input) port() string {
	if in.Only != "" && in.Only != "port" {
		return "4047"
	}
	return "404{{.PC_REPLICA_NUM}}"
}

func (in c16Input) tpl(field string) string {
	if in.Only != "" && in.Only != field {
		return field + "-plain"
	}
	s := field + "-{{.PC_REPLICA_NUM}}"
	if in.GlobalVar {
		s += "-{{.G}}"
	}
	if in.LocalVar {
		s += "-{{.L}}"
	}
	if in.Nested {
		s += "-{{.DB.host}}"
	}
	return s
}

func (in c16Input) yaml() string {
	var b strings.Builder
	b.WriteString("version: \"0.5\"\n")
	if in.GlobalVar {
		b.WriteString("vars:\n  G: gval\n  N: 42\n")
	}
	b.WriteString("processes:\n  w:\n")
	fmt.Fprintf(&b, "    command: %q\n", in.tpl("cmd"))
	fmt.Fprintf(&b, "    working_dir: %q\n", "/"+in.tpl("wd"))
	fmt.Fprintf(&b, "    log_location: %q\n", "/tmp/"+in.tpl("log"))
	fmt.Fprintf(&b, "    description: %q\n", in.tpl("desc"))
	if in.Replicas > 0 {
		fmt.Fprintf(&b, "    replicas: %d\n", in.Replicas)
	}
	if in.LocalVar || in.Nested {
		b.WriteString("    vars:\n")
		if in.LocalVar {
			b.WriteString("      L: lval\n")
		}
		if in.Nested {
			b.WriteString("      DB:\n        host: dbh\n        port: 5432\n")
		}
	}
	if in.Disabled {
		b.WriteString("    disabled: true\n")
	}
	if in.NameKey {
		b.WriteString("    name: \"frontend\"\n")
	}
	for _, f := range strings.Fields(in.Flags) {
		fmt.Fprintf(&b, "    %s: true\n", f)
	}
	if in.Probes == "exec" || in.Probes == "both" {
		fmt.Fprintf(&b, "    readiness_probe:\n      exec:\n        command: %q\n      period_seconds: 2\n", in.tpl("chk"))
	}
	if in.Probes == "http" || in.Probes == "both" {
		fmt.Fprintf(&b, "    liveness_probe:\n      http_get:\n        host: %q\n        path: %q\n        port: %q\n", in.tpl("host"), "/"+in.tpl("path"), in.port())
	}
	if in.Probes == "dual" {
		// one probe that carries an exec and an http_get section (the loader accepts it; it is also what an override
		// file that replaces one kind of check by the other leaves behind). The exec section is the one that is
		// used at run time and the one that is rendered; the http section is dead configuration and not judged
		fmt.Fprintf(&b, "    liveness_probe:\n      exec:\n        command: %q\n      http_get:\n        host: %q\n        path: %q\n        port: %q\n", in.tpl("chk"), in.tpl("host"), "/"+in.tpl("path"), in.port())
	}
	b.WriteString("  k:\n    command: \"keeps\"\n    namespace: ns1\n    launch_timeout_seconds: 1\n    replicas: 1\n")
	b.WriteString("  x:\n    command: \"plain\"\n  y:\n    command: \"other {{.PC_REPLICA_NUM}}\"\n    replicas: 2\n")
	if in.GlobalVar {
		// u overrides a project-level variable locally, v and z use the project-level value
		b.WriteString("  u:\n    command: \"u {{.G}} {{.N}}\"\n    description: \"{{.G}}\"\n    vars:\n      G: local-u\n      N: 7\n")
		b.WriteString("  v:\n    command: \"v {{.G}} {{.N}}\"\n    description: \"{{.G}}\"\n")
		b.WriteString("  z:\n    command: \"z {{.G}} {{.N}}\"\n    working_dir: \"/{{.G}}\"\n")
	}
	return b.String()
}

func refRender(s string, vars map[string]any) string {
	t, err := template.New("").Parse(s)
	if err != nil {
		return "PARSE-ERROR"
	}
	var buf bytes.Buffer
	if err := t.Execute(&buf, vars); err != nil {
		return "EXEC-ERROR"
	}
	return buf.String()
}

func refReplicaName(name string, replicas, num int) string {
	if replicas <= 1 {
		return name
	}
	w := 1 + int(math.Log10(float64(replicas)))
	return fmt.Sprintf("%s-%0*d", name, w, num)
}

// behavioural projection of a loaded process (bookkeeping fields OriginalConfig and Vars are not part of it)
func procView(p types.ProcessConfig) map[string]any {
	m := map[string]any{
		"Name": p.Name, "ReplicaName": p.ReplicaName, "ReplicaNum": p.ReplicaNum, "Replicas": p.Replicas, "Namespace": p.Namespace,
		"Command": p.Command, "Executable": p.Executable, "Args": p.Args, "WorkingDir": p.WorkingDir, "LogLocation": p.LogLocation,
		"Description": p.Description, "Environment": p.Environment, "DependsOn": p.DependsOn, "RestartPolicy": p.RestartPolicy,
		"ShutDownParams": p.ShutDownParams, "LaunchTimeout": p.LaunchTimeout, "Disabled": p.Disabled, "IsDaemon": p.IsDaemon,
		"ReadyLogLine": p.ReadyLogLine, "IsForeground": p.IsForeground,
	}
	if p.ReadinessProbe != nil {
		m["ReadinessProbe"] = *p.ReadinessProbe
		if p.ReadinessProbe.Exec != nil {
			m["ReadinessExec"] = *p.ReadinessProbe.Exec
		}
		if p.ReadinessProbe.HttpGet != nil {
			m["ReadinessHttp"] = *p.ReadinessProbe.HttpGet
		}
	}
	if p.LivenessProbe != nil {
		m["LivenessProbe"] = *p.LivenessProbe
		if p.LivenessProbe.Exec != nil {
			m["LivenessExec"] = *p.LivenessProbe.Exec
		}
		if p.LivenessProbe.HttpGet != nil {
			m["LivenessHttp"] = *p.LivenessProbe.HttpGet
		}
	}
	return m
}

func projectView(p *types.Project) string {
	names := make([]string, 0, len(p.Processes))
	for n := range p.Processes {
		names = append(names, n)
	}
	sort.Strings(names)
	var parts []string
	for _, n := range names {
		b, _ := json.Marshal(procView(p.Processes[n]))
		parts = append(parts, n+"="+string(b))
	}
	return strings.Join(parts, "\n")
}

func c16E2(tier string, o *E2Out) {
	o.Rule = "E2: configuration files with replicas {unset,1,2,3,10} (thorough +11,100) x global vars on/off x local vars on/off x probes {none,exec,http,both}, templates in command, working_dir, log_location, description, exec-probe command, http host/path/port; each loaded under sorted order, all-reversed, all-rotated and every single-site map-order permutation. Oracle: defaults (name, namespace, replicas>=1, launch timeout>0), unique reference-width replica names, every rendered field equals a reference text/template rendering with that replica's own variables, and the behavioural projection of the project is identical under every map order. Non-trivial = replicas >= 2."
	o.Exhaustive = true
	dir, _ := os.MkdirTemp("", "vh-c16-")
	defer os.RemoveAll(dir)
	reps := []int{0, 1, 2, 3, 10}
	if tier == "thorough" {
		reps = append(reps, 11, 100)
	}
	idx := 0
	for _, r := range reps {
		for _, g := range []bool{false, true} {
			for _, l := range []bool{false, true} {
				for _, pr := range []string{"none", "exec", "http", "both", "dual"} {
					if pr == "dual" && (r > 3 || (g && l)) {
						continue
					}
					idx++
					if !o.mine(idx) {
						continue
					}
					if o.expired() {
						o.Exhaustive = false
						return
					}
					in := c16Input{Replicas: r, GlobalVar: g, LocalVar: l, Probes: pr}
					c16One(o, dir, in, tier == "thorough" || r <= 3)
					// a variable whose value is a mapping
					if pr == "both" && (r == 1 || r == 2) && !g {
						in4 := in
						in4.Nested = true
						c16One(o, dir, in4, false)
					}
					// rendering does not depend on whether and how the process is going to be run
					if pr == "both" && (r == 1 || r == 2) {
						in2 := in
						in2.Disabled = true
						c16One(o, dir, in2, false)
						in5 := in
						in5.NameKey = true
						c16One(o, dir, in5, false)
						in6 := in
						in6.Split = true
						c16One(o, dir, in6, false)
						for _, fl := range []string{"is_foreground", "is_daemon", "is_tty"} {
							in3 := in
							in3.Flags = fl
							c16One(o, dir, in3, false)
						}
					}
					// one templated field at a time (a shortcut taken for "plain" values must look at every field)
					if pr == "both" && (r == 2 || r == 3) && !(g && l) {
						for _, only := range []string{"cmd", "wd", "log", "desc", "chk", "host", "path", "port"} {
							in.Only = only
							c16One(o, dir, in, false)
						}
					}
				}
			}
		}
	}
}

func c16One(o *E2Out, dir string, in c16Input, full bool) {
	files := map[string]string{"pc.yaml": in.yaml()}
	names := []string{"pc.yaml"}
	if in.Split {
		// the defaults fill in what no file configures; a later file that mentions a process changes nothing else
		files["over.yaml"] = "version: \"0.5\"\nprocesses:\n  w:\n    is_tty: false\n  k:\n    is_tty: false\n  y:\n    is_tty: false\n"
		names = append(names, "over.yaml")
	}
	var base *permRecorder
	var baseView string
	eval := func(m permMode) {
		in.Mode = m.String()
		o.Evaluations++
		if in.Replicas >= 2 && m.Kind == "default" {
			o.Distinct++ // distinct inputs: the map-order variants of one file count once
		}
		var prj *types.Project
		var err error
		rec := withPerm(m, func() { prj, err = loadFiles(dir, files, names, false) })
		if err != nil {
			o.violation("C16", "load-error", fmt.Sprintf("valid file does not load: %v", err), in)
			return
		}
		view := projectView(prj)
		if m.Kind == "default" {
			base, baseView = rec, view
			o.sample(fmt.Sprintf("%+v -> %d processes", in, len(prj.Processes)))
		} else if view != baseView {
			field := diffField(baseView, view)
			o.violation("C16", "nondeterministic:"+field, fmt.Sprintf("the loaded project depends on map iteration order (%s): first differing field %s", m, field), in)
		}
		// defaults, names, per-replica rendering
		n := in.Replicas
		if n < 1 {
			n = 1
		}
		seen := map[string]bool{}
		count := 0
		for key, pc := range prj.Processes {
			if pc.Name == "" || pc.Namespace == "" || pc.Replicas < 1 || pc.LaunchTimeout <= 0 {
				o.violation("C16", "default:missing", fmt.Sprintf("process %s: name %q namespace %q replicas %d launch timeout %d", key, pc.Name, pc.Namespace, pc.Replicas, pc.LaunchTimeout), in)
			}
			if pc.Name == "k" && (pc.Namespace != "ns1" || pc.LaunchTimeout != 1 || pc.Replicas != 1 || key != "k") {
				o.violation("C16", "default:overrides-configured", fmt.Sprintf("configured namespace ns1 / launch timeout 1 / replicas 1 loaded as %q / %d / %d (key %s)", pc.Namespace, pc.LaunchTimeout, pc.Replicas, key), in)
			}
			if pc.Name == "x" && (pc.Namespace != "default" || pc.LaunchTimeout != 5 || pc.Replicas != 1) {
				o.violation("C16", "default:value", fmt.Sprintf("defaults of x: namespace %q launch timeout %d replicas %d", pc.Namespace, pc.LaunchTimeout, pc.Replicas), in)
			}
			if in.GlobalVar {
				switch pc.Name {
				case "u":
					if pc.Command != "u local-u 7" || pc.Description != "local-u" {
						o.violation("C16", "rendered:local-override", fmt.Sprintf("process u (local vars G=local-u N=7) rendered as %q / %q (map order %s)", pc.Command, pc.Description, m), in)
					}
				case "v", "z":
					if pc.Command != pc.Name+" gval 42" {
						o.violation("C16", "rendered:leaked-vars", fmt.Sprintf("process %s uses the project-level G and N but was rendered as %q (map order %s)", pc.Name, pc.Command, m), in)
					}
				}
			}
			if pc.Name != "w" {
				continue
			}
			count++
			want := refReplicaName("w", n, pc.ReplicaNum)
			if key != want || pc.ReplicaName != want || seen[want] {
				o.violation("C16", "replica-name", fmt.Sprintf("replica %d of %d is keyed %q / named %q, want %q", pc.ReplicaNum, n, key, pc.ReplicaName, want), in)
			}
			seen[want] = true
			vars := map[string]any{"PC_REPLICA_NUM": pc.ReplicaNum}
			if in.GlobalVar {
				vars["G"] = "gval"
				vars["N"] = 42
			}
			if in.LocalVar {
				vars["L"] = "lval"
			}
			if in.Nested {
				vars["DB"] = map[string]any{"host": "dbh", "port": 5432}
			}
			chk := func(field, got, tpl string) {
				if w := refRender(tpl, vars); got != w {
					o.violation("C16", "rendered:"+field, fmt.Sprintf("replica %d: %s = %q, want %q (map order %s)", pc.ReplicaNum, field, got, w, m), in)
				}
			}
			chk("command", pc.Command, in.tpl("cmd"))
			chk("working_dir", pc.WorkingDir, "/"+in.tpl("wd"))
			chk("log_location", pc.LogLocation, "/tmp/"+in.tpl("log"))
			chk("description", pc.Description, in.tpl("desc"))
			if len(pc.Args) > 0 {
				chk("args", pc.Args[len(pc.Args)-1], in.tpl("cmd"))
			}
			if in.Probes == "exec" || in.Probes == "both" {
				if pc.ReadinessProbe == nil || pc.ReadinessProbe.Exec == nil {
					o.violation("C16", "rendered:probe-missing", "readiness probe lost", in)
				} else {
					chk("probe.exec.command", pc.ReadinessProbe.Exec.Command, in.tpl("chk"))
					if pc.ReadinessProbe.PeriodSeconds != 2 {
						o.violation("C16", "default:probe-period", fmt.Sprintf("configured period 2 became %d", pc.ReadinessProbe.PeriodSeconds), in)
					}
				}
			}
			if in.Probes == "dual" {
				if pc.LivenessProbe == nil || pc.LivenessProbe.Exec == nil {
					o.violation("C16", "rendered:probe-missing", "exec section of the liveness probe lost", in)
				} else {
					chk("probe.exec.command", pc.LivenessProbe.Exec.Command, in.tpl("chk"))
				}
			}
			if in.Probes == "http" || in.Probes == "both" {
				if pc.LivenessProbe == nil || pc.LivenessProbe.HttpGet == nil {
					o.violation("C16", "rendered:probe-missing", "liveness probe lost", in)
				} else {
					h := pc.LivenessProbe.HttpGet
					chk("probe.http.host", h.Host, in.tpl("host"))
					chk("probe.http.path", h.Path, "/"+in.tpl("path"))
					chk("probe.http.port", h.Port, in.port())
					wantPort := 4040 + pc.ReplicaNum
					if in.port() == "4047" {
						wantPort = 4047
					}
					if pc.ReplicaNum < 10 && h.NumPort != wantPort {
						o.violation("C16", "rendered:probe.http.num_port", fmt.Sprintf("replica %d: numeric port %d, want %d", pc.ReplicaNum, h.NumPort, wantPort), in)
					}
				}
			}
		}
		if count != n {
			o.violation("C16", "replica-count", fmt.Sprintf("%d replicas of w loaded, want %d", count, n), in)
		}
	}
	eval(permMode{Kind: "default"})
	if base == nil {
		return
	}
	for _, m := range permModes(base, full) {
		eval(m)
	}
}

// diffField names the first JSON field in which two project views differ.
func diffField(a, b string) string {
	la, lb := strings.Split(a, "\n"), strings.Split(b, "\n")
	for i := 0; i < len(la) && i < len(lb); i++ {
		if la[i] == lb[i] {
			continue
		}
		var ma, mb map[string]json.RawMessage
		ka, kb := strings.SplitN(la[i], "=", 2), strings.SplitN(lb[i], "=", 2)
		if ka[0] != kb[0] {
			return "process-set"
		}
		json.Unmarshal([]byte(ka[1]), &ma)
		json.Unmarshal([]byte(kb[1]), &mb)
		keys := make([]string, 0, len(ma))
		for k := range ma {
			keys = append(keys, k)
		}
		sort.Strings(keys)
		for _, k := range keys {
			if string(ma[k]) != string(mb[k]) {
				return k
			}
		}
	}
	return "process-set"
}
