package vh

// C12 Ordered shutdown stops dependents before the processes they depend on.

import (
	"fmt"
	"strings"
	"time"
)

func init() { registry["C12"] = &propDef{e1: c12Scenarios} }

func c12Scenarios(tier string) []*Scenario {
	var scs []*Scenario
	type shape struct {
		id    string
		deps  map[string][]string // process -> dependencies
		names []string
	}
	shapes := []shape{
		{"chain3", map[string][]string{"b": {"a"}, "c": {"b"}}, []string{"a", "b", "c"}},
		{"fanin2", map[string][]string{"b": {"a"}, "c": {"a"}}, []string{"a", "b", "c"}},
		{"fanout", map[string][]string{"c": {"a", "b"}}, []string{"a", "b", "c"}},
	}
	shapes = append(shapes, shape{"fanin3", map[string][]string{"b": {"a"}, "c": {"a"}, "d": {"a"}}, []string{"a", "b", "c", "d"}})
	if tier == "thorough" {
		shapes = append(shapes,
			shape{"fanin4", map[string][]string{"b": {"a"}, "c": {"a"}, "d": {"a"}, "e": {"a"}}, []string{"a", "b", "c", "d", "e"}},
			shape{"diamond", map[string][]string{"b": {"a"}, "c": {"a"}, "d": {"b", "c"}}, []string{"a", "b", "c", "d"}},
			shape{"chain+free", map[string][]string{"b": {"a"}}, []string{"a", "b", "c"}},
		)
	}
	for _, sh := range shapes {
		n := len(sh.names)
		// every subset of processes that has already ended when the shutdown begins
		for ended := 0; ended < 1<<n; ended++ {
			if ended == 1<<n-1 {
				continue
			}
			if tier != "thorough" && (bitsSet(ended) > 1 || (n > 3 && ended != 0)) {
				continue
			}
			var nodes []GNode
			var endedNames []string
			for i, name := range sh.names {
				nd := GNode{Name: name, Beh: "daemon"}
				if ended>>i&1 == 1 {
					nd.Beh = "ok"
					endedNames = append(endedNames, name)
				}
				if ds := sh.deps[name]; len(ds) > 0 {
					nd.Deps = map[string]string{}
					for _, d := range ds {
						nd.Deps[d] = cStarted
					}
				}
				nodes = append(nodes, nd)
			}
			yaml, procs, _ := buildGraph(nodes, nil)
			want := n - len(endedNames)
			allUp := func(w *World) bool {
				// all commands launched and the short-lived ones have ended
				if len(w.procs) < n {
					return false
				}
				alive := 0
				for _, f := range w.procs {
					if f.Alive() {
						alive++
					}
				}
				return alive == want
			}
			sc := &Scenario{
				ID:   fmt.Sprintf("c12-%s-ended[%s]", sh.id, strings.Join(endedNames, "")),
				YAML: yaml, Procs: procs, K: 1, Ordered: true, TickBudget: 1,
				API:      [][]APICall{{{Op: "shutdown", When: allUp}}},
				MapSites: []string{"runningProcessesReverseDependencies", "shutDownInOrder", "ShutDownProject"},
			}
			deps := sh.deps
			sc.Check = func(w *World) []Violation { return c12Check(w, deps) }
			scs = append(scs, sc)
			// variant: a leaf dependent was already asked to stop by the user (and is still dying) when the shutdown begins
			if ended == 0 && n <= 3 {
				leaf := sh.names[n-1]
				sc2 := &Scenario{
					ID:   fmt.Sprintf("c12-%s-userstop[%s]", sh.id, leaf),
					YAML: yaml, Procs: procs, K: 1, Ordered: true, TickBudget: 1,
					API:      [][]APICall{{{Op: "stop", Name: leaf, When: allUp}, {Op: "shutdown"}}},
					MapSites: sc.MapSites,
				}
				sc2.Check = func(w *World) []Violation { return c12Check(w, deps) }
				scs = append(scs, sc2)
				// variant: the leaf dependent was restarted by hand earlier (an older instance of it has ended)
				leafKey := key0(leaf)
				again := func(w *World) bool { return w.launches[leafKey] >= 2 && allUp(w) }
				sc4 := &Scenario{
					ID:   fmt.Sprintf("c12-%s-restarted[%s]", sh.id, leaf),
					YAML: yaml, Procs: procs, K: 1, Ordered: true, TickBudget: 2,
					API:      [][]APICall{{{Op: "restart", Name: leaf, When: allUp}, {Op: "shutdown", When: again}}},
					MapSites: sc.MapSites,
				}
				sc4.Check = func(w *World) []Violation { return c12Check(w, deps) }
				scs = append(scs, sc4)
				// variant: the leaf dependent is disabled in the configuration and was started by hand
				nodes3 := append([]GNode{}, nodes...)
				nodes3[n-1].Disabled = true
				yaml3, procs3, _ := buildGraph(nodes3, nil)
				othersUp := func(w *World) bool {
					alive := 0
					for _, f := range w.procs {
						if f.Alive() {
							alive++
						}
					}
					return alive == n-1
				}
				sc3 := &Scenario{
					ID:   fmt.Sprintf("c12-%s-manual[%s]", sh.id, leaf),
					YAML: yaml3, Procs: procs3, K: 1, Ordered: true, TickBudget: 1,
					API:      [][]APICall{{{Op: "start", Name: leaf, When: othersUp}, {Op: "shutdown", When: allUp}}},
					MapSites: sc.MapSites,
				}
				sc3.Check = func(w *World) []Violation { return c12Check(w, deps) }
				scs = append(scs, sc3)
				// variant: the root dependency is disabled in the configuration (its dependents run without waiting
				// for it) and is started by hand later: it is still the last to be stopped
				if len(sh.deps[sh.names[0]]) == 0 {
					root := sh.names[0]
					nodes6 := append([]GNode{}, nodes...)
					nodes6[0].Disabled = true
					yaml6, procs6, _ := buildGraph(nodes6, nil)
					for _, nm := range sh.names[1:] {
						procs6[nm] = &ProcScript{DieAfter: 2 * time.Second}
					}
					sc6 := &Scenario{
						ID:   fmt.Sprintf("c12-%s-dependency-started-later[%s]", sh.id, root),
						YAML: yaml6, Procs: procs6, K: 1, Ordered: true, TickBudget: 3,
						API:      [][]APICall{{{Op: "start", Name: root, When: othersUp}, {Op: "shutdown", When: allUp}}},
						MapSites: sc.MapSites,
					}
					sc6.Check = func(w *World) []Violation { return c12Check(w, deps) }
					scs = append(scs, sc6)
				}
				// variant: the leaf dependent fails once and is in its restart back-off when somebody asks to start it;
				// the shutdown begins after the back-off, when its command (its commands, if the start was served)
				// is up again
				nodes5 := append([]GNode{}, nodes...)
				nodes5[n-1].Restart = "always"
				yaml5, procs5, _ := buildGraph(nodes5, nil)
				yaml5 = strings.Replace(yaml5, "      restart: \"always\"\n", "      restart: \"always\"\n      backoff_seconds: 5\n", 1)
				procs5[leaf] = &ProcScript{Launches: [][]Action{{Exit(1)}, {}}}
				inBackoff := func(w *World) bool {
					return w.launches[leafKey] == 1 && w.lastStat[leaf] == "Restarting" && othersUp(w)
				}
				afterBackoff := func(w *World) bool { return w.launches[leafKey] >= 2 && w.now() >= 6*time.Second && allUpAtLeast(w, n) }
				sc5 := &Scenario{
					ID:   fmt.Sprintf("c12-%s-start-in-backoff[%s]", sh.id, leaf),
					YAML: yaml5, Procs: procs5, K: 1, Ordered: true, TickBudget: 2,
					API:      [][]APICall{{{Op: "start", Name: leaf, When: inBackoff}, {Op: "shutdown", When: afterBackoff}}},
					MapSites: sc.MapSites,
				}
				sc5.Check = func(w *World) []Violation { return c12Check(w, deps) }
				scs = append(scs, sc5)
			}
		}
	}
	// the dependent is a daemon (its launcher has exited, it is reported Launched) with a stop command that takes its
	// time (here: until it is killed after 2 s): it counts as alive until that command has come back
	for _, beh := range []string{"ok", "hang"} {
		beh := beh
		launchedB := func(w *World) bool { return w.lastStat["b"] == "Launched" && w.launches["a#0"] > 0 }
		sc := &Scenario{
			ID: "c12-daemon-dependent-stopcmd-" + beh,
			YAML: projectYAML(nil, PC{Name: "a"}, PC{Name: "b", Deps: map[string]string{"a": cStarted},
				Lines: []string{"is_daemon: true", "shutdown:", "  command: \"stop-b\"", "  timeout_seconds: 2"}}),
			Procs: map[string]*ProcScript{"a": {}, "b": {Launches: exits(0)}},
			Aux:   map[string][]string{"stop-b": {beh}},
			K:     1, Ordered: true, TickBudget: 3,
			API: [][]APICall{{{Op: "shutdown", When: launchedB}}},
		}
		sc.Check = func(w *World) []Violation {
			tr := w.pre()
			sigA := findEvent(tr, 0, func(e Event) bool { return e.Kind == "signal" && e.Proc == "a#0" })
			ansB := findEvent(tr, 0, func(e Event) bool { return e.Kind == "aux-ans" && e.Proc == "aux:stop-b" })
			reqB := findEvent(tr, 0, func(e Event) bool { return e.Kind == "aux-req" && e.Proc == "aux:stop-b" })
			if sigA >= 0 && reqB >= 0 && (ansB < 0 || sigA < ansB) {
				return []Violation{viol("C12", "stopped-before-dependent:daemon", "a received its stop signal (t=%v) while the stop command of its dependent daemon b was still running", tr[sigA].T)}
			}
			if sigA >= 0 && reqB < 0 {
				return []Violation{viol("C12", "stopped-before-dependent:daemon", "a received its stop signal before its dependent daemon b was asked to stop")}
			}
			return nil
		}
		scs = append(scs, sc)
	}
	// `up a --no-deps --ordered-shutdown`: only a is selected (its own depends_on is cleared); b, which depends on a, is
	// listed as disabled, keeps its dependency and is started by hand. The order still holds at shutdown.
	{
		nodes := []GNode{{Name: "a", Beh: "daemon"}, {Name: "b", Beh: "daemon", Deps: map[string]string{"a": cStarted}}}
		yaml, procs, _ := buildGraph(nodes, nil)
		aUp := func(w *World) bool { return w.launches["a#0"] > 0 }
		both := func(w *World) bool {
			n := 0
			for _, f := range w.procs {
				if f.Alive() {
					n++
				}
			}
			return n == 2
		}
		sc := &Scenario{
			ID:   "c12-nodeps-selected[a]-manual[b]",
			YAML: yaml, Procs: procs, K: 1, Ordered: true, TickBudget: 1, ToRun: []string{"a"}, NoDeps: true,
			API:      [][]APICall{{{Op: "start", Name: "b", When: aUp}, {Op: "shutdown", When: both}}},
			MapSites: []string{"runningProcessesReverseDependencies", "shutDownInOrder", "ShutDownProject"},
		}
		deps := map[string][]string{"b": {"a"}}
		sc.Check = func(w *World) []Violation { return c12Check(w, deps) }
		scs = append(scs, sc)
	}
	// a dependency that has completed (which released its dependent) and was then launched again by hand:
	// both run when the shutdown begins; the dependent still goes first
	for _, cond := range []string{cCompleted, cSucc} {
		nodes := []GNode{{Name: "a", Beh: "ok"}, {Name: "b", Beh: "daemon", Deps: map[string]string{"a": cond}}}
		yaml, procs, _ := buildGraph(nodes, nil)
		procs["a"].Launches = [][]Action{{Exit(0)}, {}}
		bOnly := func(w *World) bool {
			na, nb := 0, 0
			for _, f := range w.procs {
				if f.Alive() && f.Name == "a" {
					na++
				}
				if f.Alive() && f.Name == "b" {
					nb++
				}
			}
			return na == 0 && nb == 1
		}
		both := func(w *World) bool {
			n := 0
			for _, f := range w.procs {
				if f.Alive() {
					n++
				}
			}
			return n == 2
		}
		sc := &Scenario{
			ID:   "c12-rerun-" + condShort(cond),
			YAML: yaml, Procs: procs, K: 1, Ordered: true, TickBudget: 1,
			API:      [][]APICall{{{Op: "start", Name: "a", When: bOnly}, {Op: "shutdown", When: both}}},
			MapSites: []string{"runningProcessesReverseDependencies", "shutDownInOrder", "ShutDownProject"},
		}
		deps := map[string][]string{"b": {"a"}}
		sc.Check = func(w *World) []Violation { return c12Check(w, deps) }
		scs = append(scs, sc)
	}
	return scs
}

func bitsSet(x int) int {
	n := 0
	for ; x > 0; x >>= 1 {
		n += x & 1
	}
	return n
}

// allUpAtLeast: at least n commands are alive.
func allUpAtLeast(w *World, n int) bool {
	alive := 0
	for _, f := range w.procs {
		if f.Alive() {
			alive++
		}
	}
	return alive >= n
}

func c12Check(w *World, deps map[string][]string) []Violation {
	var vs []Violation
	tr := w.pre()
	req := findEvent(tr, 0, func(e Event) bool { return e.Kind == "api-call" && strings.HasPrefix(e.Data, "shutdown") })
	if req < 0 {
		return nil
	}
	aliveAtReq := map[string]bool{}
	for _, k := range tr[req].Alive {
		aliveAtReq[baseOf(k)] = true
	}
	exited := map[string]bool{}
	for i := req; i < len(tr); i++ {
		e := tr[i]
		switch e.Kind {
		case "exit":
			exited[baseOf(e.Proc)] = true
		case "signal":
			x := baseOf(e.Proc)
			for y, ds := range deps {
				for _, d := range ds {
					stillAlive := false
					for _, k := range e.Alive {
						if baseOf(k) == y {
							stillAlive = true // (a second command of y may be alive although one has exited)
						}
					}
					if d == x && aliveAtReq[y] && (!exited[y] || stillAlive) {
						vs = append(vs, viol("C12", "stopped-before-dependent", "%s received signal %d while its dependent %s (running when the shutdown began) was still alive", x, e.Sig, y))
					}
				}
			}
		}
	}
	ret := findEvent(tr, req, func(e Event) bool { return e.Kind == "api-ret" && strings.HasPrefix(e.Data, "shutdown") })
	if ret < 0 {
		if w.Outcome == "stuck" || w.Outcome == "deadlock" {
			vs = append(vs, viol("C12", "shutdown-blocked:"+blockedKinds(w, "api"), "ordered ShutDownProject did not return (outcome %s, blocked %v)", w.Outcome, w.Blocked))
		}
	} else if len(tr[ret].Alive) > 0 {
		vs = append(vs, viol("C12", "alive-after-shutdown", "ordered ShutDownProject returned while %v alive", tr[ret].Alive))
	}
	return vs
}
