package vh

// C19 REST API and client: faithful view of the runner, client errors never become 5xx.
// Differential: the same request history is executed twice on identical worlds, once by
// direct calls on the runner and once through client.PcClient -> REST -> handlers.

import (
	"bytes"
	"encoding/json"
	"fmt"
	"io"
	"net/http"
	"net/http/httptest"
	"sort"
	"strings"
	"testing"
	"time"

	"github.com/f1bonacc1/process-compose/src/api"
	"github.com/f1bonacc1/process-compose/src/app"
	"github.com/f1bonacc1/process-compose/src/client"
	"github.com/f1bonacc1/process-compose/src/types"
	"github.com/gin-gonic/gin"
)

func init() {
	registry["C19"] = &propDef{e1: c19Scenarios}
	gin.SetMode(gin.ReleaseMode)
}

var curT *testing.T

// engineTransport dispatches HTTP requests straight into the gin engine (no sockets).
type engineTransport struct {
	h http.Handler
	w *World
}

func (t engineTransport) RoundTrip(req *http.Request) (*http.Response, error) {
	rec := httptest.NewRecorder()
	t.h.ServeHTTP(rec, req)
	if err := req.Context().Err(); err != nil {
		// the caller gave up (client time-out) while the server was still working on the request
		return nil, err
	}
	if rec.Code >= 500 && t.w != nil {
		t.w.mu.Lock()
		l, _ := t.w.Extra["http-5xx"].([]string)
		seg := strings.Split(req.URL.Path, "/")
		if len(seg) > 3 {
			seg = seg[:3]
		}
		t.w.Extra["http-5xx"] = append(l, fmt.Sprintf("%s %s -> %d", req.Method, strings.Join(seg, "/"), rec.Code))
		t.w.mu.Unlock()
	}
	return rec.Result(), nil
}

type c19Env struct {
	engine *gin.Engine
	cl     *client.PcClient
}

func c19Setup(w *World) *c19Env {
	if e, ok := w.Extra["c19"].(*c19Env); ok {
		return e
	}
	e := &c19Env{engine: api.InitRoutes(false, api.NewPcApi(w.Runner))}
	e.cl = client.NewTcpClient("pc", 80, 100)
	w.Extra["c19"] = e
	return e
}

// canonical JSON of a value with volatile fields removed
func canon(v any) string {
	b, err := json.Marshal(v)
	if err != nil {
		return "MARSHAL-ERROR " + err.Error()
	}
	var x any
	if json.Unmarshal(b, &x) != nil {
		return string(b)
	}
	x = scrub(x)
	out, _ := json.Marshal(x)
	return string(out)
}

var volatile = map[string]bool{"age": true, "system_time": true, "mem": true, "cpu": true, "pid": true, "upTime": true, "startTime": true,
	"memoryState": true, "fileNames": true, "FileNames": true, "UpTime": true, "StartTime": true, "MemoryState": true, "OriginalConfig": true}

func scrub(x any) any {
	switch v := x.(type) {
	case map[string]any:
		for k := range v {
			if volatile[k] {
				delete(v, k)
			} else {
				v[k] = scrub(v[k])
			}
		}
		return v
	case []any:
		for i := range v {
			v[i] = scrub(v[i])
		}
		// state listings come in map order: sort by name when elements have one
		sort.SliceStable(v, func(i, j int) bool {
			mi, ok1 := v[i].(map[string]any)
			mj, ok2 := v[j].(map[string]any)
			if ok1 && ok2 {
				return fmt.Sprint(mi["name"]) < fmt.Sprint(mj["name"])
			}
			return false
		})
		return v
	}
	return x
}

type c19Req struct {
	Label  string
	Direct func(r *app.ProjectRunner, w *World) (any, error)
	Client func(c *client.PcClient, w *World) (any, error)
	Raw    *c19Raw // raw HTTP request (invalid inputs): only status class is checked
	Mutate bool
}

type c19Raw struct {
	Method, Path, Body string
	WantClass          int // 2, 4: expected status class (0 = any but 5)
}

func c19Alphabet(tier string) []c19Req {
	names := []string{"a", "nosuch", "a b", "0", "%2e%2e"}
	if tier == "thorough" {
		names = append(names, "", "-1", "99999999999999999999", "a?x")
	}
	var reqs []c19Req
	add := func(r c19Req) { reqs = append(reqs, r) }
	add(c19Req{Label: "states", Direct: func(r *app.ProjectRunner, w *World) (any, error) { return r.GetProcessesState() },
		Client: func(c *client.PcClient, w *World) (any, error) { return c.GetProcessesState() }})
	add(c19Req{Label: "names", Direct: func(r *app.ProjectRunner, w *World) (any, error) { return r.GetLexicographicProcessNames() },
		Client: func(c *client.PcClient, w *World) (any, error) { return c.GetLexicographicProcessNames() }})
	add(c19Req{Label: "project-state", Direct: func(r *app.ProjectRunner, w *World) (any, error) { return r.GetProjectState(false) },
		Client: func(c *client.PcClient, w *World) (any, error) { return c.GetProjectState(false) }})
	add(c19Req{Label: "hostname", Direct: func(r *app.ProjectRunner, w *World) (any, error) { return r.GetHostName() },
		Client: func(c *client.PcClient, w *World) (any, error) { return c.GetHostName() }})
	for _, n := range names {
		n := n
		add(c19Req{Label: "state(" + n + ")", Direct: func(r *app.ProjectRunner, w *World) (any, error) { return r.GetProcessState(n) },
			Client: func(c *client.PcClient, w *World) (any, error) { return c.GetProcessState(n) }})
		add(c19Req{Label: "info(" + n + ")", Direct: func(r *app.ProjectRunner, w *World) (any, error) { return r.GetProcessInfo(n) },
			Client: func(c *client.PcClient, w *World) (any, error) { return c.GetProcessInfo(n) }})
		add(c19Req{Label: "ports(" + n + ")", Direct: func(r *app.ProjectRunner, w *World) (any, error) { return r.GetProcessPorts(n) },
			Client: func(c *client.PcClient, w *World) (any, error) { return c.GetProcessPorts(n) }})
		add(c19Req{Label: "stop(" + n + ")", Mutate: true, Direct: func(r *app.ProjectRunner, w *World) (any, error) { return nil, r.StopProcess(n) },
			Client: func(c *client.PcClient, w *World) (any, error) { return nil, c.StopProcess(n) }})
		add(c19Req{Label: "start(" + n + ")", Mutate: true, Direct: func(r *app.ProjectRunner, w *World) (any, error) { return nil, r.StartProcess(n) },
			Client: func(c *client.PcClient, w *World) (any, error) { return nil, c.StartProcess(n) }})
		add(c19Req{Label: "restart(" + n + ")", Mutate: true, Direct: func(r *app.ProjectRunner, w *World) (any, error) { return nil, r.RestartProcess(n) },
			Client: func(c *client.PcClient, w *World) (any, error) { return nil, c.RestartProcess(n) }})
		for _, k := range []int{-1, 0, 2} {
			k := k
			add(c19Req{Label: fmt.Sprintf("scale(%s,%d)", n, k), Mutate: true, Direct: func(r *app.ProjectRunner, w *World) (any, error) { return nil, r.ScaleProcess(n, k) },
				Client: func(c *client.PcClient, w *World) (any, error) { return nil, c.ScaleProcess(n, k) }})
		}
		add(c19Req{Label: "stopmany(" + n + ",b)", Mutate: true, Direct: func(r *app.ProjectRunner, w *World) (any, error) { return r.StopProcesses([]string{n, "b"}) },
			Client: func(c *client.PcClient, w *World) (any, error) { return c.StopProcesses([]string{n, "b"}) }})
	}
	for _, variant := range []string{"same", "change-b", "remove-b", "add-c", "replicas-a", "replicas-r"} {
		variant := variant
		load := func(w *World) (*types.Project, error) {
			return w.LoadYAML("upd-"+variant+fmt.Sprint(len(w.trace))+".yaml", c19YAML(variant))
		}
		add(c19Req{Label: "update(" + variant + ")", Mutate: true, Direct: func(r *app.ProjectRunner, w *World) (any, error) {
			p, err := load(w)
			if err != nil {
				return nil, err
			}
			return r.UpdateProject(p)
		}, Client: func(c *client.PcClient, w *World) (any, error) {
			p, err := load(w)
			if err != nil {
				return nil, err
			}
			return c.UpdateProject(p)
		}})
	}
	for _, variant := range []string{"same", "change-b", "replicas-a"} {
		variant := variant
		pick := map[string]string{"same": "b", "change-b": "b", "replicas-a": "a"}[variant]
		load := func(w *World) (*types.ProcessConfig, error) {
			p, err := w.LoadYAML("updp-"+variant+fmt.Sprint(len(w.trace))+".yaml", c19YAML(variant))
			if err != nil {
				return nil, err
			}
			for _, pc := range p.Processes {
				if pc.Name == pick && pc.ReplicaNum == 0 {
					pc := pc
					return &pc, nil
				}
			}
			return nil, fmt.Errorf("no process %s in the file", pick)
		}
		add(c19Req{Label: "updateproc(" + variant + ")", Mutate: true, Direct: func(r *app.ProjectRunner, w *World) (any, error) {
			pc, err := load(w)
			if err != nil {
				return nil, err
			}
			return nil, r.UpdateProcess(pc)
		}, Client: func(c *client.PcClient, w *World) (any, error) {
			pc, err := load(w)
			if err != nil {
				return nil, err
			}
			return nil, c.UpdateProcess(pc)
		}})
	}
	// raw invalid requests: 4xx with an error body, never 5xx
	raw := func(m, p, body string, class int) {
		add(c19Req{Label: "raw " + m + " " + p + " [" + short(body) + "]", Raw: &c19Raw{Method: m, Path: p, Body: body, WantClass: class}})
	}
	raw("GET", "/process/logs/a/x/1", "", 4)
	raw("GET", "/process/logs/a/1/x", "", 4)
	raw("GET", "/process/logs/nosuch/0/1", "", 4)
	raw("GET", "/process/logs/a/0/1", "", 2)
	raw("GET", "/process/logs/a/-5/99999", "", 2)
	raw("GET", "/process/logs/a/99999999999999999999/1", "", 4)
	raw("PATCH", "/process/scale/a/x", "", 4)
	raw("PATCH", "/process/scale/a/-1", "", 4)
	raw("PATCH", "/process/scale/a/0", "", 4)
	raw("PATCH", "/process/scale/nosuch/2", "", 4)
	raw("PATCH", "/process/stop/nosuch", "", 4)
	raw("POST", "/process/start/nosuch", "", 4)
	raw("POST", "/process/restart/nosuch", "", 4)
	raw("GET", "/process/nosuch", "", 4)
	raw("GET", "/process/info/nosuch", "", 4)
	raw("PATCH", "/process/scale/a/99999999999999999999", "", 4)
	raw("PATCH", "/processes/stop", "", 4)
	raw("PATCH", "/processes/stop", "[\"a\"", 4)
	raw("PATCH", "/processes/stop", "{\"a\":1}", 4)
	raw("POST", "/project", "", 4)
	raw("POST", "/project", "{\"Processes\": 5}", 4)
	raw("POST", "/project", "{\"Processes\": {\"a\": {\"Na", 4)
	raw("POST", "/process", "", 4)
	raw("POST", "/process", "{\"ReplicaName\": \"nosuch\"}", 4)
	raw("POST", "/process", "[1,2]", 4)
	raw("GET", "/process/logs/ws?name=a&offset=x&follow=true", "", 4)
	raw("GET", "/process/ports/nosuch", "", 4)
	return reqs
}

func c19YAML(variant string) string {
	// (the numbers are there for the JSON round trip of a REST update: 7 and 1048576 come back as float64)
	b := PC{Name: "b", Lines: []string{"environment:", "  - 'K=1'", "vars:", "  BIG: 1048576", "  SMALL: 3", "  RATIO: 0.5"}}
	// (r has two replicas: its configuration keys r-0 / r-1 differ from its name)
	pcs := []PC{{Name: "a", Restart: "no"}, b, {Name: "r", Lines: []string{"replicas: 2"}}}
	switch variant {
	case "change-b":
		pcs[1].Lines = []string{"environment:", "  - 'K=2'", "vars:", "  BIG: 1048576", "  SMALL: 3", "  RATIO: 0.5"}
	case "remove-b":
		pcs = []PC{pcs[0], pcs[2]}
	case "add-c":
		pcs = append(pcs, PC{Name: "c"})
	case "replicas-a":
		// an update that changes nothing but the replica count of a process is carried out as a scale request
		pcs[0].Lines = append(pcs[0].Lines, "replicas: 2")
	case "replicas-r":
		pcs[2].Lines = []string{"replicas: 3"}
	}
	return projectYAML([]string{"vars:", "  N: 7"}, pcs...)
}

func c19Scenarios(tier string) []*Scenario {
	var scs []*Scenario
	alpha := c19Alphabet(tier)
	mk := func(seq []int) {
		var labels []string
		for _, i := range seq {
			labels = append(labels, alpha[i].Label)
		}
		sc := &Scenario{ID: "c19-" + strings.Join(labels, ";"), YAML: c19YAML("same"), K: 0, EnvCost: 1, Horizon: 60 * time.Second,
			Procs: map[string]*ProcScript{"a": {}, "b": {}, "c": {}}}
		sc.Transport = "rest"
		ready := func(w *World) bool { return len(w.procs) >= 2 }
		var calls []APICall
		for ci, i := range seq {
			rq := alpha[i]
			c := APICall{Op: "fn", Name: rq.Label, Fn: func(w *World) (string, error) { return c19Do(w, rq) }}
			if ci == 0 {
				c.When = ready
			}
			calls = append(calls, c)
		}
		// always end with a liveness request and a full state query
		calls = append(calls, APICall{Op: "fn", Name: "final", Fn: func(w *World) (string, error) {
			if w.sc.Transport == "rest" {
				e := c19Setup(w)
				old := http.DefaultTransport
				http.DefaultTransport = engineTransport{e.engine, w}
				defer func() { http.DefaultTransport = old }()
				if err := e.cl.IsAlive(); err != nil {
					return "", fmt.Errorf("server does not answer /live any more: %w", err)
				}
				st, err := e.cl.GetProcessesState()
				return canon(st), err
			}
			st, err := w.Runner.GetProcessesState()
			return canon(st), err
		}})
		sc.API = [][]APICall{calls}
		sc.Check = c19Check
		scs = append(scs, sc)
	}
	for i := range alpha {
		mk([]int{i})
		// requests the server works on for several seconds (restart back-off of 7 s; a process that ignores
		// SIGTERM and is killed after 6 s): the client waits for the outcome like a direct caller
		if l := alpha[i].Label; l == "ports(a)" || l == "state(a)" || l == "info(a)" {
			// queries about a process that is registered but has no command yet (pending on a running dependency)
			mk([]int{i})
			sp := scs[len(scs)-1]
			sp.ID += "-pending"
			sp.YAML = projectYAML([]string{"vars:", "  N: 7"}, PC{Name: "a", Restart: "no", Deps: map[string]string{"b": "process_completed"}},
				PC{Name: "b", Lines: []string{"environment:", "  - 'K=1'"}})
			sp.API[0][0].When = func(w *World) bool { return w.launches["b#0"] > 0 }
		}
		if l := alpha[i].Label; l == "restart(a)" || l == "stop(a)" {
			mk([]int{i})
			sc := scs[len(scs)-1]
			sc.ID += "-slow"
			sc.YAML = projectYAML([]string{"vars:", "  N: 7"}, PC{Name: "a", Restart: "no", Backoff: 7, Lines: []string{"shutdown:", "  timeout_seconds: 6"}},
				PC{Name: "b", Lines: []string{"environment:", "  - 'K=1'"}})
			sc.Procs = map[string]*ProcScript{"a": {OnTerm: "ignore"}, "b": {}, "c": {}}
			sc.TickBudget = 1
			// the same request for a process that has no command at the moment: pending on a dependency that
			// keeps running, or waiting out its restart back-off
			mk([]int{i})
			sp := scs[len(scs)-1]
			sp.ID += "-pending"
			sp.YAML = projectYAML([]string{"vars:", "  N: 7"}, PC{Name: "a", Restart: "no", Deps: map[string]string{"b": "process_completed"}},
				PC{Name: "b", Lines: []string{"environment:", "  - 'K=1'"}})
			sp.API[0][0].When = func(w *World) bool { return w.launches["b#0"] > 0 }
			mk([]int{i})
			sb := scs[len(scs)-1]
			sb.ID += "-backoff"
			sb.YAML = projectYAML([]string{"vars:", "  N: 7"}, PC{Name: "a", Restart: "always", Backoff: 5},
				PC{Name: "b", Lines: []string{"environment:", "  - 'K=1'"}})
			sb.Procs = map[string]*ProcScript{"a": {Launches: [][]Action{{Exit(1)}, {}}}, "b": {}, "c": {}}
			sb.API[0][0].When = func(w *World) bool { return w.lastStat["a"] == "Restarting" }
			sb.TickBudget = 1
		}
	}
	// length 2: a state-changing request followed by any request (quick: a selection)
	for i := range alpha {
		if !alpha[i].Mutate {
			continue
		}
		for j := range alpha {
			if tier != "thorough" {
				li, lj := alpha[i].Label, alpha[j].Label
				okI := strings.Contains(li, "(a") || strings.HasPrefix(li, "update")
				okJ := lj == "states" || strings.HasPrefix(lj, "state(a") || strings.HasPrefix(lj, "start(a") || strings.HasPrefix(lj, "raw GET /process/logs/a/0/1")
				if !okI || !okJ {
					continue
				}
			}
			mk([]int{i, j})
		}
	}
	// log range requests for a process that has written more lines than log_length (the buffer keeps up to a
	// hundred more): the REST answer is the window the runner returns, whatever the offset
	for _, off := range []int{0, 2, 3, 4, 6, 8, 100} {
		for _, lim := range []int{0, 1, 3} {
			off, lim := off, lim
			rq := c19Req{Label: fmt.Sprintf("logs(a,%d,%d)", off, lim), Direct: func(r *app.ProjectRunner, w *World) (any, error) { return r.GetProcessLog("a", off, lim) },
				Client: func(c *client.PcClient, w *World) (any, error) {
					// (the client package does not implement this call: the route is asked directly)
					req := httptest.NewRequest("GET", fmt.Sprintf("/process/logs/a/%d/%d", off, lim), nil)
					rec := httptest.NewRecorder()
					c19Setup(w).engine.ServeHTTP(rec, req)
					var body struct {
						Logs  []string `json:"logs"`
						Error string   `json:"error"`
					}
					if err := json.Unmarshal(rec.Body.Bytes(), &body); err != nil {
						return nil, err
					}
					if rec.Code != 200 {
						return nil, fmt.Errorf("%s", body.Error)
					}
					return body.Logs, nil
				}}
			alpha = append(alpha, rq)
			mk([]int{len(alpha) - 1})
			sl := scs[len(scs)-1]
			sl.YAML = projectYAML([]string{"log_length: 3", "vars:", "  N: 7"}, PC{Name: "a", Restart: "no"}, PC{Name: "b", Lines: []string{"environment:", "  - 'K=1'"}})
			sl.Procs = map[string]*ProcScript{"a": {Launches: [][]Action{{Out("l1\nl2\nl3\nl4\nl5\nl6\nl7\nl8\n")}}}, "b": {}, "c": {}}
			sl.API[0][0].When = func(w *World) bool {
				for _, f := range w.procs {
					if f.Name == "a" && f.pc >= len(f.script) && f.stdout != nil && len(f.stdout.buf) == 0 {
						return len(w.procs) >= 2
					}
				}
				return false
			}
		}
	}
	// the websocket log route: a client that reads gets the lines the runner holds, and the server goes on serving
	for _, ws := range c18wsScenarios(tier) {
		if !strings.HasPrefix(ws.ID, "c18-ws-all") && !strings.HasPrefix(ws.ID, "c18-ws-history") && !strings.HasPrefix(ws.ID, "c18-ws-two") {
			continue
		}
		ws := ws
		inner := ws.Check
		ws.ID = "c19-" + strings.TrimPrefix(ws.ID, "c18-")
		ws.Check = func(w *World) []Violation {
			var vs []Violation
			for _, v := range inner(w) {
				vs = append(vs, Violation{Prop: "C19", Sig: "ws:" + v.Sig, Msg: v.Msg})
			}
			return vs
		}
		scs = append(scs, ws)
	}
	return scs
}

func c19Do(w *World, rq c19Req) (string, error) {
	if rq.Raw != nil {
		e := c19Setup(w)
		var body io.Reader
		if rq.Raw.Body != "" {
			body = bytes.NewBufferString(rq.Raw.Body)
		}
		req := httptest.NewRequest(rq.Raw.Method, rq.Raw.Path, body)
		if rq.Raw.Body != "" {
			req.Header.Set("Content-Type", "application/json")
		}
		rec := httptest.NewRecorder()
		e.engine.ServeHTTP(rec, req)
		var eb map[string]any
		hasErr := json.Unmarshal(rec.Body.Bytes(), &eb) == nil && eb["error"] != nil
		return fmt.Sprintf("status=%d errorBody=%v want=%d", rec.Code, hasErr, rq.Raw.WantClass), nil
	}
	var v any
	var err error
	if w.sc.Transport == "rest" {
		e := c19Setup(w)
		old := http.DefaultTransport
		http.DefaultTransport = engineTransport{e.engine, w}
		v, err = rq.Client(e.cl, w)
		http.DefaultTransport = old
	} else {
		v, err = rq.Direct(w.Runner, w)
	}
	if err != nil {
		if m, ok := v.(map[string]string); ok && len(m) > 0 {
			return canon(v), err // partial success: the per-process status map is part of the result
		}
		return "", err
	}
	return canon(v), nil
}

func c19Project(tr []Event) string {
	var l []string
	for _, e := range tr {
		switch e.Kind {
		case "start", "exit", "signal", "startfail":
			l = append(l, fmt.Sprintf("%s:%s:%d:%d", e.Kind, e.Proc, e.Code, e.Sig))
		}
	}
	return strings.Join(l, " ")
}

func c19Check(w *World) []Violation {
	var vs []Violation
	// twin execution with direct calls
	twin := *w.sc
	twin.Transport = "direct"
	twin.Check = nil
	twin.dir, twin.written = "", false
	w2 := RunExecution(curT, &twin, nil)
	defer twin.Cleanup()
	if len(w.apiRes) != len(w2.apiRes) {
		return []Violation{viol("C19", "harness", "twin executions differ in length")}
	}
	for i := range w.apiRes {
		r, d := w.apiRes[i], w2.apiRes[i]
		label := r.Call.Name
		route := strings.SplitN(label, "(", 2)[0]
		if strings.HasPrefix(label, "raw ") {
			// invalid (or valid) raw request: status class, error body, never 5xx
			var code, want int
			var hasErr bool
			fmt.Sscanf(r.Val, "status=%d errorBody=%t want=%d", &code, &hasErr, &want)
			p := strings.Fields(label)
			seg := strings.Split(strings.SplitN(p[2], "?", 2)[0], "/")
			if len(seg) > 3 {
				seg = seg[:3]
			}
			rt := p[1] + " " + strings.Join(seg, "/")
			switch {
			case code >= 500:
				vs = append(vs, viol("C19", "5xx:"+rt, "%s answered with status %d", label, code))
			case want == 2:
				// after a state-changing request the name may legitimately be gone: only never 5xx
				if code != 200 && r.Idx == 0 {
					vs = append(vs, viol("C19", "valid-rejected:"+rt, "%s answered with status %d", label, code))
				}
			case code < 400:
				vs = append(vs, viol("C19", "not-4xx:"+rt, "invalid request %s answered with status %d", label, code))
			case !hasErr:
				vs = append(vs, viol("C19", "no-error-body:"+rt, "invalid request %s answered %d without an error message", label, code))
			}
			continue
		}
		if !r.Done || !d.Done {
			if r.Done != d.Done {
				vs = append(vs, viol("C19", "blocked:"+route, "%s returned=%v through REST, returned=%v directly", label, r.Done, d.Done))
			}
			continue
		}
		if r.Val != "" && d.Val != "" && (r.Err != nil) != (d.Err != nil) && (route == "stopmany" || route == "update") {
			// partial success is reported as 207 + status map by the API and as map + error by the
			// runner: the status map is the result that has to agree
			if r.Val != d.Val {
				vs = append(vs, viol("C19", "result-differs:"+route, "%s:\n client %s\n direct %s", label, short400(r.Val), short400(d.Val)))
			}
			continue
		}
		if (r.Err != nil) != (d.Err != nil) {
			vs = append(vs, viol("C19", "result-differs:"+route+":error", "%s: REST/client error=%v, direct error=%v", label, r.Err, d.Err))
			continue
		}
		if r.Err != nil && d.Err != nil && r.Err.Error() != d.Err.Error() && !strings.Contains(label, "a b") && !strings.Contains(label, "()") {
			// the client is expected to hand the server's error message on
			vs = append(vs, viol("C19", "result-differs:"+route+":error-message", "%s: client error %q, runner error %q", label, r.Err, d.Err))
		}
		if r.Err == nil && r.Val != d.Val {
			vs = append(vs, viol("C19", "result-differs:"+route, "%s:\n client %s\n direct %s", label, short400(r.Val), short400(d.Val)))
		}
	}
	if l, _ := w.Extra["http-5xx"].([]string); len(l) > 0 {
		vs = append(vs, viol("C19", "5xx:"+strings.SplitN(l[0], " ->", 2)[0], "the server answered %v", l))
	}
	if p1, p2 := c19Project(w.pre()), c19Project(w2.pre()); p1 != p2 {
		vs = append(vs, viol("C19", "state-differs:effects", "the request history has different effects through REST:\n rest   %s\n direct %s", p1, p2))
	}
	return vs
}

func short400(s string) string {
	if len(s) > 400 {
		return s[:400] + "…"
	}
	return s
}
