package vh

// C13 Scaling: exactly n consistently named replicas, survivors undisturbed.

import (
	"encoding/json"
	"fmt"
	"sort"
	"strings"
	"time"

	"github.com/f1bonacc1/process-compose/src/types"
)

func init() { registry["C13"] = &propDef{e1: c13Scenarios} }

func c13YAML(replicas int) string {
	var b strings.Builder
	b.WriteString("version: \"0.5\"\nvars:\n  GS: gstr\n  GN: 12345678\nprocesses:\n")
	b.WriteString("  d:\n    command: \"fake d\"\n")
	b.WriteString("  x:\n    command: \"fake x\"\n")
	b.WriteString("  w:\n    command: \"fake w {{.PC_REPLICA_NUM}} {{.GS}} {{.GN}} {{.LN}}\"\n")
	b.WriteString("    description: \"replica {{.PC_REPLICA_NUM}} of w\"\n")
	b.WriteString("    working_dir: \"/tmp\"\n") // exec probes without a directory of their own inherit it
	b.WriteString("    log_location: \"@DIR@/w.{{.PC_REPLICA_NUM}}.log\"\n")
	b.WriteString("    vars:\n      LN: 87654321\n")
	b.WriteString("    environment:\n      - 'K=v'\n")
	b.WriteString("    availability:\n      restart: \"no\"\n")
	b.WriteString("    depends_on:\n      d:\n        condition: process_completed\n")
	b.WriteString("    readiness_probe:\n      exec:\n        command: \"probe-w-{{.PC_REPLICA_NUM}}\"\n      period_seconds: 30\n")
	if replicas > 0 {
		fmt.Fprintf(&b, "    replicas: %d\n", replicas)
	}
	return b.String()
}

// c13RefYAML is the configuration of a scenario family with the given number of replicas.
func c13RefYAML(wbeh string, replicas int) string {
	y := c13YAML(replicas)
	if wbeh == "backoff" {
		y = strings.Replace(y, `restart: "no"`, "restart: \"always\"\n      backoff_seconds: 5", 1)
	}
	if wbeh == "manual" {
		y = strings.Replace(y, "    working_dir: \"/tmp\"\n", "    working_dir: \"/tmp\"\n    disabled: true\n", 1)
	}
	return y
}

type c13Obs struct {
	Call      string
	N         int
	Name      string
	Err       string
	Names     []string
	Infos     map[string]string
	States    []string
	LogNames  []string
	Before    []string
	Restarts  map[string]int // restart counter per listed process when the request returned
	Edit      bool           // the count was changed by editing replica 0 (UpdateProcess): that replica is replaced by design
	LogBefore map[int]string // in-memory log of replica i of w right before / right after the request
	LogAfter  map[int]string
	TracePos  int
	RetPos    int
}

func c13Observe(w *World) (names []string, infos map[string]string, states []string, logs []string) {
	r := w.Runner
	names, _ = r.GetLexicographicProcessNames()
	infos = map[string]string{}
	for _, n := range names {
		pc, err := r.GetProcessInfo(n)
		if err != nil {
			infos[n] = "ERR " + err.Error()
			continue
		}
		b, _ := json.Marshal(procView(*pc))
		infos[n] = string(b)
		if _, err := r.GetProcessLog(n, 1, 0); err == nil {
			logs = append(logs, n)
		}
	}
	st, err := r.GetProcessesState()
	if err == nil {
		for _, s := range st.States {
			states = append(states, s.Name)
		}
		sort.Strings(states)
	}
	return
}

// c13Logs returns the in-memory log of every replica of w, by replica number.
func c13Logs(w *World) map[int]string {
	r := w.Runner
	out := map[int]string{}
	names, _ := r.GetLexicographicProcessNames()
	for _, n := range names {
		pc, err := r.GetProcessInfo(n)
		if err != nil || pc.Name != "w" {
			continue
		}
		if l, err := r.GetProcessLog(n, 1000, 0); err == nil {
			out[pc.ReplicaNum] = strings.Join(l, "\n")
		}
	}
	return out
}

func c13Scenarios(tier string) []*Scenario {
	var scs []*Scenario
	ns := []int{-1, 0, 1, 2, 3, 9, 10, 11}
	if tier == "thorough" {
		ns = append(ns, 99, 100, 101)
	}
	type req struct {
		name string
		n    int
	}
	var hist [][]req
	for _, a := range ns {
		hist = append(hist, []req{{"w", a}})
	}
	hist = append(hist, []req{{"nosuch", 2}})
	second := []int{1, 2, 3, 10, 11}
	if tier == "thorough" {
		second = ns
	}
	for _, a := range []int{1, 2, 3, 10, 11} {
		for _, b := range second {
			hist = append(hist, []req{{"w", a}, {"w", b}})
		}
	}
	// scale requests after the replica count was changed by editing the process (TUI edit, POST /process:
	// UpdateProcess with another replicas value, which carries the change out as a scale request of its own)
	for _, a := range []int{2, 3} {
		hist = append(hist, []req{{"w~edit", a}, {"w", a}})
		hist = append(hist, []req{{"w~edit", a}, {"w", 1}})
		hist = append(hist, []req{{"w~edit", a}, {"w", a + 1}})
	}
	if tier == "thorough" {
		for _, a := range []int{2, 10} {
			for _, b := range []int{1, 3, 11} {
				for _, c := range []int{1, 2, 10} {
					hist = append(hist, []req{{"w", a}, {"w", b}, {"w", c}})
				}
			}
		}
	}
	for _, wbeh := range []string{"daemon", "done", "pending", "released", "backoff", "manual"} {
		for _, init := range []int{1, 2} {
			for _, h := range hist {
				h := h
				downUp := wbeh == "backoff" && len(h) == 2 && h[0].n == 1 && h[0].n < init && h[1].n >= 2 && h[1].n <= 3
				if wbeh != "daemon" && !downUp && (len(h) > 1 || (tier != "thorough" && h[0].n > 3 && h[0].n != 10)) {
					continue
				}
				if wbeh != "daemon" && strings.Contains(h[0].name+h[len(h)-1].name, "~edit") {
					continue // (edits of a process that has no command yet are C14's subject, not driven here)
				}
				var ids []string
				for _, r := range h {
					ids = append(ids, fmt.Sprintf("%s=%d", r.name, r.n))
				}
				sc := &Scenario{ID: fmt.Sprintf("c13-%s-init%d-%s", wbeh, init, strings.Join(ids, ",")), YAML: c13YAML(init), K: 0, TickBudget: 0, EnvCost: 1, Horizon: 100 * time.Second,
					Procs: map[string]*ProcScript{"d": {Launches: exits(0)}, "x": {}, "w": {}}}
				switch wbeh {
				case "daemon": // every replica has written a line when the request arrives
					sc.Procs["w"] = &ProcScript{Launches: [][]Action{{Out("w-line\n")}}}
				case "done": // the replicas have already completed when the request arrives
					sc.Procs["w"] = &ProcScript{Launches: exits(0)}
				case "pending": // the replicas are still waiting for d
					sc.Procs["d"] = &ProcScript{}
				case "released": // the replicas wait for d, which exits once every request has been served
					nreq := len(h)
					sc.Procs["d"] = &ProcScript{Launches: exits(0), Hold: func(w *World, pc int) bool {
						obs, _ := w.Extra["c13"].([]*c13Obs)
						return len(obs) < nreq
					}}
				case "backoff": // every replica has exited and waits out its restart back-off when the request arrives
					sc.YAML = c13RefYAML(wbeh, init)
					sc.Procs["w"] = &ProcScript{Launches: [][]Action{{Exit(1)}, {}}}
				case "manual": // w is disabled: true; its replicas were started by hand before the request
					sc.YAML = c13RefYAML(wbeh, init)
				}
				init, wbeh := init, wbeh
				ready := func(w *World) bool {
					// every initial replica and the bystander are running
					nw, nx := 0, 0
					for _, f := range w.procs {
						if f.Alive() && f.Name == "w" {
							nw++
						}
						if f.Alive() && f.Name == "x" {
							nx++
						}
					}
					switch wbeh {
					case "done":
						return w.launches["w#0"] > 0 && w.launches[fmt.Sprintf("w#%d", init-1)] > 0 && nw == 0 && nx == 1
					case "pending", "released":
						return nx == 1 && w.launches["d#0"] > 0
					case "backoff":
						for i := 0; i < init; i++ {
							if w.launches[fmt.Sprintf("w#%d", i)] != 1 {
								return false
							}
						}
						return nw == 0 && nx == 1
					}
					for _, f := range w.procs {
						// the line of every replica has been read from its pipe
						if f.Alive() && f.Name == "w" && (f.pc < len(f.script) || (f.stdout != nil && len(f.stdout.buf) > 0)) {
							return false
						}
					}
					return nw == init && nx == 1
				}
				var calls []APICall
				for i, r := range h {
					r := r
					edit := strings.HasSuffix(r.name, "~edit")
					r.name = strings.TrimSuffix(r.name, "~edit")
					c := APICall{Op: "fn", Name: fmt.Sprintf("scale:%s:%d", r.name, r.n), Fn: func(w *World) (string, error) {
						o := &c13Obs{Call: "scale", N: r.n, Name: r.name, Edit: edit}
						_, before, _, _ := c13Observe(w)
						var bl []string
						for k, v := range before {
							bl = append(bl, k+"="+v)
						}
						sort.Strings(bl)
						o.Before = bl
						o.LogBefore = c13Logs(w)
						w.mu.Lock()
						o.TracePos = len(w.trace)
						w.mu.Unlock()
						// the request names a replica as the TUI / REST client do: replica 0 under its current name
						reqName := r.name
						if r.name == "w" {
							curN, _ := w.Extra["c13cur"].(int)
							if curN == 0 {
								curN = init
							}
							reqName = refReplicaName("w", curN, 0)
						}
						var err error
						if edit {
							var pc *types.ProcessConfig
							if pc, err = w.Runner.GetProcessInfo(reqName); err == nil {
								upd := *pc
								upd.Replicas = r.n
								err = w.Runner.UpdateProcess(&upd)
							}
						} else {
							err = w.Runner.ScaleProcess(reqName, r.n)
						}
						if err == nil && r.name == "w" {
							w.Extra["c13cur"] = r.n
						}
						if err != nil {
							o.Err = err.Error()
						}
						o.Names, o.Infos, o.States, o.LogNames = c13Observe(w)
						o.LogAfter = c13Logs(w)
						o.Restarts = map[string]int{}
						if st, err := w.Runner.GetProcessesState(); err == nil {
							for _, s := range st.States {
								o.Restarts[s.Name] = s.Restarts
							}
						}
						w.mu.Lock()
						o.RetPos = len(w.trace)
						obs, _ := w.Extra["c13"].([]*c13Obs)
						w.Extra["c13"] = append(obs, o)
						w.mu.Unlock()
						return "", err
					}}
					if i == 0 {
						c.When = ready
					}
					calls = append(calls, c)
				}
				if wbeh == "manual" {
					var starts []APICall
					for i := 0; i < init; i++ {
						starts = append(starts, APICall{Op: "start", Name: refReplicaName("w", init, i), When: func(w *World) bool { return w.launches["d#0"] > 0 }})
					}
					calls = append(starts, calls...)
				}
				sc.API = [][]APICall{calls}
				if len(h) == 1 && (tier == "thorough" || h[0].n <= 3) {
					sc.K = 1 // one deviation: an environment event out of order, an early event or a delayed thread
				}
				sc.Check = func(w *World) []Violation { return c13Check(w, init, wbeh) }
				scs = append(scs, sc)
			}
		}
	}
	return scs
}

func c13Check(w *World, init int, wbeh string) []Violation {
	var vs []Violation
	obs, _ := w.Extra["c13"].([]*c13Obs)
	tr := w.pre()
	cur := init
	for oi, o := range obs {
		invalid := o.N < 1 || o.Name != "w"
		if invalid {
			if o.Err == "" {
				vs = append(vs, viol("C13", "invalid-request-effect:no-error", "ScaleProcess(%s,%d) returned nil", o.Name, o.N))
			}
			var al []string
			for k, v := range o.Infos {
				al = append(al, k+"="+v)
			}
			sort.Strings(al)
			if strings.Join(al, "\n") != strings.Join(o.Before, "\n") {
				vs = append(vs, viol("C13", "invalid-request-effect:config-changed", "ScaleProcess(%s,%d) failed but changed the configuration", o.Name, o.N))
			}
			for i := o.TracePos; i < o.RetPos && i < len(tr); i++ {
				if tr[i].Kind == "signal" || tr[i].Kind == "start" {
					vs = append(vs, viol("C13", "invalid-request-effect:"+tr[i].Kind, "ScaleProcess(%s,%d) failed but caused %s", o.Name, o.N, tr[i].Kind))
				}
			}
			continue
		}
		if o.Err != "" {
			vs = append(vs, viol("C13", "scale-error", "ScaleProcess(w,%d) failed: %s", o.N, o.Err))
			continue
		}
		prev := cur
		cur = o.N
		if o.Edit {
			// an edit is an update of the process, not a scale request: it is part of the history (C14 judges
			// updates); the scale requests that follow it are judged like any other
			continue
		}
		// reference: a fresh load with replicas: n
		ref, err := w.LoadYAML(fmt.Sprintf("ref-%d.yaml", o.N), c13RefYAML(wbeh, o.N))
		if err != nil {
			vs = append(vs, viol("C13", "harness", "reference load failed: %v", err))
			continue
		}
		var refNames []string
		for n := range ref.Processes {
			refNames = append(refNames, n)
		}
		sort.Strings(refNames)
		class := fmt.Sprintf("%s", c13Class(prev, o.N))
		if strings.Join(refNames, ",") != strings.Join(o.Names, ",") {
			vs = append(vs, viol("C13", "names:"+class, "after scale %d->%d the processes are %v, a fresh load with replicas %d has %v", prev, o.N, o.Names, o.N, refNames))
			continue
		}
		for i := prev; i < o.N && prev >= 1; i++ {
			name := refReplicaName("w", o.N, i)
			if n, ok := o.Restarts[name]; ok && n != 0 {
				vs = append(vs, viol("C13", "added-state:restarts", "replica %s added by scale %d->%d starts with a restart count of %d", name, prev, o.N, n))
			}
		}
		if strings.Join(o.States, ",") != strings.Join(refNames, ",") {
			fin := ""
			if w.Final != nil && oi == len(obs)-1 {
				var fl []string
				for n := range w.Final.States {
					fl = append(fl, n)
				}
				sort.Strings(fl)
				fin = fmt.Sprintf(" (at the end of the execution: %v)", fl)
			}
			vs = append(vs, viol("C13", "state-listing:"+class, "after scale %d->%d GetProcessesState lists %v, want %v%s", prev, o.N, o.States, refNames, fin))
		}
		for i := 0; i < prev && i < o.N; i++ {
			// a surviving replica keeps the log it had (it may have grown meanwhile), whatever it is called now
			if b, a := o.LogBefore[i], o.LogAfter[i]; !strings.HasPrefix(a, b) {
				vs = append(vs, viol("C13", "survivor-log:"+class, "after scale %d->%d the in-memory log of surviving replica %d is %q, it was %q before the request", prev, o.N, i, a, b))
			}
		}
		if strings.Join(o.LogNames, ",") != strings.Join(refNames, ",") {
			vs = append(vs, viol("C13", "log-buffers:"+class, "after scale %d->%d log buffers exist for %v, want %v", prev, o.N, o.LogNames, refNames))
		}
		for _, n := range refNames {
			rb, _ := json.Marshal(procView(ref.Processes[n]))
			if string(rb) != o.Infos[n] {
				f := c13DiffField(string(rb), o.Infos[n])
				kind := "survivor"
				if pc := ref.Processes[n]; pc.Name == "w" && pc.ReplicaNum >= prev {
					kind = "added"
				} else if ref.Processes[n].Name != "w" {
					kind = "bystander"
				}
				vs = append(vs, viol("C13", "rendered:"+f+":"+kind, "after scale %d->%d process %s differs from a fresh load in %s:\n got  %s\n want %s", prev, o.N, n, f, o.Infos[n], string(rb)))
				break
			}
		}
		// events of this request: from its start to the next request (or the end)
		end := len(tr)
		if oi+1 < len(obs) && obs[oi+1].TracePos < end {
			end = obs[oi+1].TracePos
		}
		for i := o.TracePos; i < end; i++ {
			e := tr[i]
			if e.Kind != "signal" && e.Kind != "start" {
				continue
			}
			base := baseOf(e.Proc)
			num := -1
			fmt.Sscanf(e.Proc[strings.LastIndex(e.Proc, "#")+1:], "%d", &num)
			switch {
			case base != "w":
				vs = append(vs, viol("C13", "bystander", "scale %d->%d caused %s of %s", prev, o.N, e.Kind, e.Proc))
			case e.Kind == "signal" && num < o.N:
				vs = append(vs, viol("C13", "survivor-disturbed:signal", "scale %d->%d signalled surviving replica %d", prev, o.N, num))
			case e.Kind == "start" && num < prev && wbeh == "daemon":
				vs = append(vs, viol("C13", "survivor-disturbed:restart", "scale %d->%d relaunched existing replica %d", prev, o.N, num))
			}
		}
	}
	// at the end: removed replicas ended, added ones were launched with their own number
	if len(obs) > 0 && w.Outcome != "deadlock" && (wbeh == "daemon" || wbeh == "released" || wbeh == "backoff" || wbeh == "manual") {
		alive := map[int]bool{}
		for _, f := range w.procs {
			if f.Name == "w" && f.started && (!f.exited || f.inCleanup) {
				alive[f.Num] = true
				e := effectiveEnv(f.Env)
				if e["PC_REPLICA_NUM"] != fmt.Sprint(f.Num) {
					vs = append(vs, viol("C13", "added-env", "replica launched with PC_REPLICA_NUM=%s", e["PC_REPLICA_NUM"]))
				}
				if want := fmt.Sprintf("fake w %d gstr 12345678 87654321", f.Num); len(f.Args) > 0 && f.Args[len(f.Args)-1] != want {
					vs = append(vs, viol("C13", "added-command", "replica %d launched with command %q, want %q", f.Num, f.Args[len(f.Args)-1], want))
				}
			}
		}
		lastErr := obs[len(obs)-1].Err != ""
		if !lastErr && wbeh != "manual" { // (replicas added to a disabled process are configured, not launched)
			for i := 0; i < cur; i++ {
				if !alive[i] {
					vs = append(vs, viol("C13", "added-not-started", "after the last scale to %d replica %d is not running", cur, i))
					break
				}
			}
		}
		for n := range alive {
			if n >= cur {
				vs = append(vs, viol("C13", "removed-alive", "after the last scale to %d replica %d is still alive", cur, n))
			}
		}
	}
	return vs
}

func c13Class(prev, n int) string {
	dir := "same"
	if n > prev {
		dir = "up"
	} else if n < prev {
		dir = "down"
	}
	w := func(x int) int { return len(fmt.Sprint(x)) }
	cross := ""
	if (prev <= 1) != (n <= 1) {
		cross = "+bare-name"
	} else if w(prev) != w(n) && prev > 1 && n > 1 {
		cross = "+width"
	}
	return dir + cross
}

func c13DiffField(a, b string) string {
	var ma, mb map[string]json.RawMessage
	json.Unmarshal([]byte(a), &ma)
	json.Unmarshal([]byte(b), &mb)
	keys := make([]string, 0, len(ma))
	for k := range ma {
		keys = append(keys, k)
	}
	sort.Strings(keys)
	for _, k := range keys {
		if string(ma[k]) != string(mb[k]) {
			return k
		}
	}
	return "?"
}

var _ = types.ProcessStateRunning
