package vh

// C08 Manual start/stop/restart semantics and at most one live instance per process.

import (
	"fmt"
	"strings"
	"time"
)

func init() { registry["C08"] = &propDef{e1: c08Scenarios} }

type c08Phase struct {
	id     string
	yaml   string
	procs  map[string]*ProcScript
	target string
	policy bool // the target restarts by policy
	ticks  int
	aux    map[string][]string // scripted auxiliary commands (shutdown.command)
}

func c08Phases() []c08Phase {
	daemon := func() *ProcScript { return &ProcScript{} }
	return []c08Phase{
		{id: "running", yaml: projectYAML(nil, PC{Name: "a"}), procs: map[string]*ProcScript{"a": daemon()}, target: "a", ticks: 2},
		{id: "fastexit", yaml: projectYAML(nil, PC{Name: "a"}), procs: map[string]*ProcScript{"a": {Launches: exits(0)}}, target: "a", ticks: 2},
		{id: "pending", yaml: projectYAML(nil, PC{Name: "d"}, PC{Name: "a", Deps: map[string]string{"d": cCompleted}}),
			procs: map[string]*ProcScript{"d": {Launches: exits(0)}, "a": daemon()}, target: "a", ticks: 2},
		{id: "backoff", yaml: projectYAML(nil, PC{Name: "a", Restart: "always", Backoff: 2}),
			procs: map[string]*ProcScript{"a": {Launches: [][]Action{{Exit(1)}, {}}}}, target: "a", policy: true, ticks: 3},
		{id: "slowstop", yaml: projectYAML(nil, PC{Name: "a", Lines: []string{"shutdown:", "  timeout_seconds: 2"}}),
			procs: map[string]*ProcScript{"a": {OnTerm: "ignore"}}, target: "a", ticks: 3},
		// no kill time-out: the stop request returns at once and the command takes 3 s to go down (Terminating meanwhile)
		// a configured shutdown command that fails by itself (the command is then killed)
		{id: "stopcmd-fail", yaml: projectYAML(nil, PC{Name: "a", Lines: []string{"shutdown:", "  command: \"stop-a\"", "  timeout_seconds: 2"}}),
			procs: map[string]*ProcScript{"a": daemon()}, target: "a", ticks: 3, aux: map[string][]string{"stop-a": {"fail"}}},
		{id: "slowdie", yaml: projectYAML(nil, PC{Name: "a"}), procs: map[string]*ProcScript{"a": {DieAfter: 3 * time.Second}}, target: "a", ticks: 4},
	}
}

func c08Scenarios(tier string) []*Scenario {
	var scs []*Scenario
	ops := []string{"start", "stop", "restart"}
	launchedAny := func(w *World) bool { return len(w.procs) > 0 }
	mk := func(ph c08Phase, id string, k int, threads ...[]APICall) {
		for _, th := range threads {
			for i := range th {
				if th[i].When == nil {
					th[i].When = launchedAny
				}
			}
		}
		sc := &Scenario{ID: "c08-" + ph.id + "-" + id, YAML: ph.yaml, Procs: ph.procs, K: k, TickBudget: ph.ticks, API: threads, Idle: 15 * time.Second, Aux: ph.aux}
		seq := len(threads) == 1
		hist := ph.id + ":" + id
		sc.Check = func(w *World) []Violation {
			vs := c08Check(w, ph, seq)
			for i := range vs {
				vs[i].Sig += "@" + hist
			}
			return vs
		}
		scs = append(scs, sc)
	}
	maxLen := 2
	if tier == "thorough" {
		maxLen = 3
	}
	for _, ph := range c08Phases() {
		// sequential histories
		var gen func(cur []string)
		gen = func(cur []string) {
			if len(cur) > 0 {
				var calls []APICall
				for _, o := range cur {
					calls = append(calls, APICall{Op: o, Name: ph.target})
				}
				k := 1
				if len(cur) >= 2 && tier != "thorough" {
					k = 0
				}
				if len(cur) == 3 {
					k = 0
				}
				mk(ph, "seq-"+strings.Join(cur, "+"), k, calls)
			}
			if len(cur) == maxLen {
				return
			}
			for _, o := range ops {
				gen(append(append([]string(nil), cur...), o))
			}
		}
		gen(nil)
		// concurrent pairs (including duplicates)
		for i, o1 := range ops {
			for _, o2 := range ops[i:] {
				k := 1
				if tier == "thorough" {
					k = 2
				}
				mk(ph, "par-"+o1+"+"+o2, k, []APICall{{Op: o1, Name: ph.target}}, []APICall{{Op: o2, Name: ph.target}})
			}
		}
	}
	// requests served while Run() is still preparing the project (env_cmds run before the first spawn)
	{
		ph := c08Phase{id: "startup", yaml: projectYAML([]string{"env_cmds:", "  VHE: \"envcmd-e\""}, PC{Name: "d"}, PC{Name: "a"}),
			procs: map[string]*ProcScript{"d": {}, "a": {}}, target: "a", ticks: 2}
		preparing := func(w *World) bool {
			return findEvent(w.trace, 0, func(e Event) bool { return e.Kind == "envcmd" }) >= 0
		}
		for _, o := range ops {
			mk(ph, "seq-"+o, 1, []APICall{{Op: o, Name: "a", When: preparing}})
			scs[len(scs)-1].EnvCmdOut = map[string]string{"envcmd-e": "e\n"}
		}
	}
	// requests that arrive while the process is being stopped by process-compose itself (its readiness probe gave
	// up) and is slow to go down: Terminating, but not by a user's stop - the restart policy still applies until a
	// stop is requested
	{
		ph := c08Phase{id: "probe-terminating", yaml: projectYAML(nil, PC{Name: "a", Restart: "always", Backoff: 1, Lines: []string{
			"readiness_probe:", "  exec:", "    command: \"probe-a\"", "  period_seconds: 1", "  failure_threshold: 1"}}),
			procs: map[string]*ProcScript{"a": {DieAfter: 3 * time.Second}}, target: "a", policy: true, ticks: 4,
			aux: map[string][]string{"probe-a": {"fail", "ok"}}}
		terminating := func(w *World) bool { return w.lastStat["a"] == "Terminating" }
		for _, o := range ops {
			mk(ph, "seq-"+o, 0, []APICall{{Op: o, Name: "a", When: terminating}})
		}
	}
	// requests that name a replica after a scale request has renamed it (a -> a-0 when scaling 1 -> 2): the running
	// instance answers to its new name and to no other
	for _, rq := range []string{"start(a-0)", "stop(a-0)", "restart(a-0)", "stop(a)", "start(a)"} {
		rq := rq
		op, name := strings.SplitN(rq, "(", 2)[0], strings.TrimSuffix(strings.SplitN(rq, "(", 2)[1], ")")
		up := func(w *World) bool { return w.launches["a#0"] > 0 }
		scaled := func(w *World) bool { return w.launches["a#1"] > 0 }
		sc := &Scenario{ID: "c08-renamed-" + rq, YAML: projectYAML(nil, PC{Name: "a"}, PC{Name: "x"}),
			Procs: map[string]*ProcScript{"a": {}, "x": {}}, K: 0, EnvCost: 1, TickBudget: 3, Idle: 15 * time.Second,
			API: [][]APICall{{{Op: "scale", Name: "a", N: 2, When: up}, {Op: op, Name: name, When: scaled}}}}
		sc.Check = func(w *World) []Violation {
			var vs []Violation
			tr := w.pre()
			if len(w.apiRes) < 2 || !w.apiRes[1].Done || w.apiRes[0].Err != nil {
				return nil
			}
			reqErr := w.apiRes[1].Err
			req := findEvent(tr, 0, func(e Event) bool { return e.Kind == "api-call" && e.Data == rq })
			alive, maxAlive, startsAfter, exitsAfter := 0, 0, 0, 0
			for i, e := range tr {
				if e.Proc != "a#0" {
					continue
				}
				switch e.Kind {
				case "start":
					alive++
					if alive > maxAlive {
						maxAlive = alive
					}
					if i > req {
						startsAfter++
					}
				case "exit":
					alive--
					if i > req {
						exitsAfter++
					}
				}
			}
			if maxAlive > 1 {
				vs = append(vs, viol("C08", "two-instances:"+op+"@renamed", "%d commands of replica 0 alive at once after %s (the replica had been renamed a -> a-0 by scaling)", maxAlive, rq))
			}
			settled := w.Outcome == "stuck" || w.Outcome == "completed"
			switch rq {
			case "start(a-0)":
				if reqErr == nil {
					vs = append(vs, viol("C08", "start-while-active:renamed", "start(a-0) returned nil although replica 0 is running under that name"))
				}
			case "stop(a-0)":
				if reqErr != nil {
					vs = append(vs, viol("C08", "stop-refused:renamed", "stop(a-0) failed (%v) although replica 0 is running under that name", reqErr))
				} else if settled && exitsAfter == 0 {
					vs = append(vs, viol("C08", "stop-ineffective:renamed", "stop(a-0) returned nil but the command of replica 0 never exited"))
				}
			case "restart(a-0)":
				if reqErr == nil && settled && (exitsAfter != 1 || startsAfter != 1) {
					vs = append(vs, viol("C08", "restart-count:renamed", "restart(a-0): %d exits and %d launches of replica 0 afterwards, want one of each", exitsAfter, startsAfter))
				}
			case "stop(a)", "start(a)":
				if reqErr == nil || startsAfter+exitsAfter > 0 {
					vs = append(vs, viol("C08", "unknown-name-effect:"+op+":renamed", "%s names no process any more (a is a-0 now): error=%v, %d launches and %d exits of replica 0 followed", rq, reqErr, startsAfter, exitsAfter))
				}
			}
			return vs
		}
		scs = append(scs, sc)
	}
	// unknown names
	ph := c08Phases()[0]
	for _, o := range ops {
		mk(ph, "unknown-"+o, 1, []APICall{{Op: o, Name: "nosuch"}})
	}
	return scs
}

func c08Check(w *World, ph c08Phase, sequential bool) []Violation {
	var vs []Violation
	tr := w.pre()
	x := ph.target
	key := key0(x)
	settled := w.Outcome == "completed" || w.Outcome == "stuck"
	// R1: at most one live instance
	for i, e := range tr {
		if e.Kind != "start" {
			continue
		}
		n := 0
		for _, a := range e.Alive {
			if a == e.Proc {
				n++
			}
		}
		if n > 1 {
			// the operations in flight or most recent
			var opsNear []string
			for j := i - 1; j >= 0 && len(opsNear) < 2; j-- {
				if tr[j].Kind == "api-call" {
					opsNear = append(opsNear, strings.SplitN(tr[j].Data, "(", 2)[0])
				}
			}
			sortStrings(opsNear)
			vs = append(vs, viol("C08", "two-instances:"+strings.Join(opsNear, "+"), "%d commands of %s alive at once (t=%v)", n, e.Proc, e.T))
		}
	}
	type call = c08Call
	var calls []call
	open := map[int]int{}
	for i, e := range tr {
		if e.Kind == "api-call" {
			open[e.Inst] = len(calls)
			calls = append(calls, call{op: strings.SplitN(e.Data, "(", 2)[0], name: e.Proc, req: i, ret: -1})
		}
		if e.Kind == "api-ret" {
			if ci, ok := open[e.Inst]; ok {
				calls[ci].ret = i
				calls[ci].failed = e.Flag
				delete(open, e.Inst)
			}
		}
	}
	liveAt := func(pos int) bool {
		alive := false
		for i := 0; i < pos; i++ {
			if tr[i].Proc == key {
				if tr[i].Kind == "start" {
					alive = true
				}
				if tr[i].Kind == "exit" {
					alive = false
				}
			}
		}
		return alive
	}
	laterCall := func(after int, ops ...string) bool {
		for _, c := range calls {
			if c.req > after && c.name == x {
				for _, o := range ops {
					if c.op == o {
						return true
					}
				}
			}
		}
		return false
	}
	startAfter := func(pos int) int {
		return findEvent(tr, pos, func(e Event) bool { return (e.Kind == "start" || e.Kind == "startfail") && e.Proc == key })
	}
	for _, c := range calls {
		if c.name == "nosuch" {
			// R5: unknown names fail and change nothing
			if c.ret >= 0 && !c.failed {
				vs = append(vs, viol("C08", "unknown-name-effect:no-error", "%s(nosuch) returned nil", c.op))
			}
			continue
		}
		if c.ret < 0 {
			if settled {
				vs = append(vs, viol("C08", "call-blocked:"+c.op+":"+blockedKinds(w, "api"), "%s(%s) did not return (outcome %s, blocked %v)", c.op, x, w.Outcome, w.Blocked))
			}
			continue
		}
		st := statusAt(tr, x, c.req)
		switch c.op {
		case "stop":
			// R2: stop of a running process => it ends, no relaunch
			// (also when the command was already being terminated - by a probe, not by a user's stop - at the request;
			// a relaunch that is observed is a violation however the execution ends)
			if !c.failed && liveAt(c.req) && (st == "Running" || st == "Terminating") {
				ex := findEvent(tr, c.req, func(e Event) bool { return e.Kind == "exit" && e.Proc == key })
				if ex < 0 {
					if settled && st == "Running" {
						vs = append(vs, viol("C08", "stop-ineffective:alive", "stop(%s) returned nil but the command never exited (outcome %s)", x, w.Outcome))
					}
				} else if sa := startAfter(ex); sa >= 0 && !laterCall(c.req, "start", "restart") && !concurrentWith(calls, c, "start", "restart") {
					vs = append(vs, viol("C08", "stop-ineffective:relaunch:"+st, "stop(%s) was followed by a relaunch without a new start request", x))
				}
			}
		case "start":
			if !sequential {
				continue
			}
			if !c.failed && liveAt(c.req) {
				vs = append(vs, viol("C08", "start-while-active:"+st, "start(%s) returned nil although a command of it was alive", x))
			}
			if c.failed && !liveAt(c.req) && (st == "Completed" || st == "Error" || st == "Skipped") {
				vs = append(vs, viol("C08", "start-refused:"+st, "start(%s) failed although no instance is active (status %s)", x, st))
			}
			if !c.failed && settled && startAfter(c.req) < 0 && !laterCall(c.req, "stop", "restart") {
				vs = append(vs, viol("C08", "start-noop:"+st, "start(%s) returned nil (status %s at the request) but no command was launched (final status %s)", x, st, statusAt(tr, x, len(tr))))
			}
			if c.failed {
				for i := c.req + 1; i < c.ret; i++ {
					if tr[i].Proc == key || (tr[i].Kind == "state" && tr[i].Proc == x) {
						// (while Run() is still spawning, the automatic first launch is not the request's doing)
						if sequential && !ph.policy && ph.id != "startup" && tr[i].Kind != "exit" && tr[i].Kind != "reaped" {
							vs = append(vs, viol("C08", "start-side-effect", "failed start(%s) coincides with %s", x, tr[i].Kind))
						}
					}
				}
			}
		case "restart":
			if !sequential || c.failed {
				continue
			}
			if settled && startAfter(c.req) < 0 && !laterCall(c.req, "stop") {
				vs = append(vs, viol("C08", "restart-no-instance:"+st, "restart(%s) returned nil but no new command was launched (status at request %s, final %s)", x, st, statusAt(tr, x, len(tr))))
			}
			_ = st
		}
	}
	// every new instance is owed to one successful start/restart request (no restart policy)
	if !ph.policy && len(calls) > 0 {
		granted := 0
		for _, c := range calls {
			if c.name == x && (c.op == "start" || c.op == "restart") && c.ret >= 0 && !c.failed {
				granted++
			}
			if c.name == x && (c.op == "start" || c.op == "restart") && c.ret < 0 {
				granted++ // still in flight
			}
		}
		n := 0
		for i := calls[0].req; i < len(tr); i++ {
			if tr[i].Kind == "start" && tr[i].Proc == key {
				n++
			}
		}
		if findEvent(tr[:calls[0].req], 0, func(e Event) bool { return e.Kind == "start" && e.Proc == key }) < 0 {
			granted++ // the automatic first launch had not happened yet
		}
		if n > granted {
			vs = append(vs, viol("C08", "instance-count", "%d commands of %s launched after the first request, but only %d start/restart requests succeeded", n, x, granted))
		}
	}
	return vs
}

type c08Call struct {
	op       string
	name     string
	req, ret int
	failed   bool
}

// concurrentWith reports whether a call of one of the given ops overlaps c in time or follows it.
func concurrentWith(calls []c08Call, c c08Call, ops ...string) bool {
	for _, o := range calls {
		if o.req == c.req {
			continue
		}
		overlap := o.req < c.ret && (o.ret < 0 || o.ret > c.req)
		if !overlap && o.req < c.req {
			continue
		}
		for _, op := range ops {
			if o.op == op {
				return true
			}
		}
	}
	return false
}

var _ = fmt.Sprint
