package vh

// C18 Log window and live subscription: right window, no gap, no duplicate.

import (
	"fmt"
	"github.com/f1bonacc1/process-compose/src/vrt"
	"math"
	"strings"

	"github.com/f1bonacc1/process-compose/src/pclog"
)

func init() { registry["C18"] = &propDef{e1: c18Scenarios, e2: c18E2} }

const c18Slack = 100 // pclog's slack constant (documented bound: size + slack)

func refWindow(lines []string, off, lim int) []string {
	n := len(lines)
	if off < 0 {
		off = 0
	}
	if off > n {
		off = n
	}
	start := n - off
	end := n
	if lim >= 1 && lim < n-start { // (no addition: lim may be as large as an int gets)
		end = start + lim
	}
	return lines[start:end]
}

func c18E2(tier string, o *E2Out) {
	o.Rule = "E2: (a) log buffer sizes {0,1,3}, every write count 0..size+2*slack+3: after each write the buffer holds the most recent lines in order, at least min(written,size), at most size+slack, and no window handed out earlier changes its content; (b) every (offset,limit) in ([-2,len+2] + the ends of the int range)^2 for every log length <= maxLen: GetLogRange equals the reference window and never panics. A case is non-trivial when the log is non-empty."
	o.Exhaustive = true
	idx := 0
	// (a) window
	for _, size := range []int{0, 1, 3} {
		idx++
		if !o.mine(idx) {
			continue
		}
		b := pclog.NewLogBuffer(size)
		var written []string
		// windows handed out earlier (and what they held then): later writes must not change them
		type handed struct {
			at   int
			win  []string
			copy string
		}
		var kept []handed
		for i := 0; i <= size+2*c18Slack+3; i++ {
			if i > 0 {
				l := fmt.Sprintf("l%d", i)
				b.Write(l)
				written = append(written, l)
				for _, h := range kept {
					if strings.Join(h.win, ",") != h.copy {
						o.violation("C18", "window:changed-after-return", fmt.Sprintf("size %d: the window returned after %d writes changed its content after %d writes", size, h.at, i), map[string]int{"size": size, "taken": h.at, "written": i})
						kept = nil
						break
					}
				}
			}
			o.Evaluations++
			n := b.GetLogLength()
			var got []string
			if p := safely(func() { got = b.GetLogRange(n, 0) }); p != "" {
				o.violation("C18", "range:panic", fmt.Sprintf("GetLogRange(%d,0) on %d lines panics: %s", n, n, p), map[string]int{"size": size, "written": i})
				continue
			}
			if i > 0 {
				o.Distinct++
				kept = append(kept, handed{at: i, win: got, copy: strings.Join(got, ",")})
			}
			min := size
			if len(written) < min {
				min = len(written)
			}
			if n < min || n > size+c18Slack {
				o.violation("C18", "window:length", fmt.Sprintf("size %d, %d lines written: buffer holds %d lines (want >= %d and <= %d)", size, i, n, min, size+c18Slack), map[string]int{"size": size, "written": i})
			}
			if len(got) <= len(written) && strings.Join(got, ",") != strings.Join(written[len(written)-len(got):], ",") {
				o.violation("C18", "window:content", fmt.Sprintf("size %d, %d lines written: buffer is not the most recent lines in order", size, i), map[string]int{"size": size, "written": i})
			}
		}
	}
	// (b) range requests
	maxLen := 8
	if tier == "thorough" {
		maxLen = 14
	}
	for n := 0; n <= maxLen; n++ {
		idx++
		if !o.mine(idx) {
			continue
		}
		b := pclog.NewLogBuffer(100)
		var lines []string
		for i := 0; i < n; i++ {
			l := fmt.Sprintf("l%d", i)
			b.Write(l)
			lines = append(lines, l)
		}
		// "whatever numbers are passed": besides the small values, the ends of the integer range
		extremes := []int{math.MaxInt, math.MaxInt - 1, math.MinInt, math.MinInt + 1, 1 << 62, -(1 << 62)}
		var offs, lims []int
		for v := -2; v <= n+2; v++ {
			offs = append(offs, v)
			lims = append(lims, v)
		}
		offs = append(offs, extremes...)
		lims = append(lims, extremes...)
		for _, off := range offs {
			for _, lim := range lims {
				o.Evaluations++
				if n > 0 {
					o.Distinct++
				}
				var got []string
				in := map[string]int{"len": n, "offset": off, "limit": lim}
				if p := safely(func() { got = b.GetLogRange(off, lim) }); p != "" {
					o.violation("C18", "range:panic", fmt.Sprintf("GetLogRange(%d,%d) on a log of %d lines panics: %s", off, lim, n, p), in)
					continue
				}
				want := refWindow(lines, off, lim)
				if strings.Join(got, ",") != strings.Join(want, ",") {
					o.violation("C18", "range:wrong", fmt.Sprintf("GetLogRange(%d,%d) on a log of %d lines = %v, want %v", off, lim, n, got, want), in)
				}
				if n == 3 && off == 2 && lim == 1 {
					o.sample(fmt.Sprintf("len=3 GetLogRange(2,1) -> %v", got))
				}
			}
		}
	}
}

// ---- hand-over: writers vs subscribe/unsubscribe, all interleavings -----------

type c18Follower struct {
	id      string
	tail    int
	snap    []string
	gotSnap bool
	stream  []string
}

func (f *c18Follower) WriteString(l string) (int, error) {
	// a follower is foreign code: the writer that calls it may be pre-empted right before the call
	vrt.Yield("follower-recv")
	f.stream = append(f.stream, l)
	return len(l), nil
}
func (f *c18Follower) SetLines(ls []string) {
	f.snap = append([]string(nil), ls...)
	f.gotSnap = true
}
func (f *c18Follower) GetTailLength() int  { return f.tail }
func (f *c18Follower) GetUniqueID() string { return f.id }

type c18State struct {
	buf       *pclog.ProcessLogBuffer
	followers []*c18Follower
}

func c18Scenarios(tier string) []*Scenario {
	var scs []*Scenario
	mk := func(id string, writers, perWriter int, tails []int, unsub bool, pre int, k int) {
		sc := &Scenario{ID: "c18-" + id, YAML: projectYAML(nil, PC{Name: "a"}), NoRun: true, K: k, FreeSwitch: true}
		sc.Setup = func(w *World) {
			st := &c18State{buf: pclog.NewLogBuffer(50)}
			for i := 0; i < pre; i++ {
				st.buf.Write(fmt.Sprintf("p%d", i))
			}
			for i, t := range tails {
				st.followers = append(st.followers, &c18Follower{id: fmt.Sprintf("f%d", i), tail: t})
			}
			w.Extra["c18"] = st
		}
		for wi := 0; wi < writers; wi++ {
			var calls []APICall
			for li := 0; li < perWriter; li++ {
				line := fmt.Sprintf("w%d-%d", wi, li)
				calls = append(calls, APICall{Op: "fn", Name: "write:" + line, Fn: func(w *World) (string, error) {
					w.Extra["c18"].(*c18State).buf.Write(line)
					return "", nil
				}})
			}
			sc.API = append(sc.API, calls)
		}
		for fi := range tails {
			fi := fi
			calls := []APICall{{Op: "fn", Name: fmt.Sprintf("subscribe:f%d", fi), Fn: func(w *World) (string, error) {
				st := w.Extra["c18"].(*c18State)
				st.buf.GetLogsAndSubscribe(st.followers[fi])
				return "", nil
			}}}
			if unsub {
				calls = append(calls, APICall{Op: "fn", Name: fmt.Sprintf("unsubscribe:f%d", fi), Fn: func(w *World) (string, error) {
					st := w.Extra["c18"].(*c18State)
					st.buf.UnSubscribe(st.followers[fi])
					return "", nil
				}})
			}
			sc.API = append(sc.API, calls)
		}
		sc.Check = c18Check
		scs = append(scs, sc)
	}
	mk("1w-1f", 1, 3, []int{2}, false, 2, 1)
	mk("1w-1f-unsub", 1, 3, []int{1}, true, 2, 1)
	mk("2w-1f", 2, 2, []int{2}, false, 1, 1)
	mk("2w-1f-unsub", 2, 2, []int{5}, true, 1, 1)
	mk("1w-2f", 1, 3, []int{1, 3}, false, 2, 1)
	mk("1w-2f-unsub", 1, 2, []int{0, 2}, true, 1, 1)
	scs = append(scs, c18wsScenarios(tier)...)
	// through the runner, for a process that is not started automatically (disabled / foreground): its log can be
	// asked for and followed before it is started by hand; the follower then receives what it writes
	for _, mark := range []string{"disabled", "is_foreground"} {
		mark := mark
		fol := func(w *World) *c18Follower {
			f, _ := w.Extra["late-follower"].(*c18Follower)
			if f == nil {
				f = &c18Follower{id: "late", tail: 10}
				w.Extra["late-follower"] = f
			}
			return f
		}
		sc := &Scenario{ID: "c18-runner-" + mark + "-follow-before-start", K: 1, TickBudget: 1,
			YAML:  projectYAML(nil, PC{Name: "a", Lines: []string{mark + ": true"}}, PC{Name: "x"}),
			Procs: map[string]*ProcScript{"a": {Launches: [][]Action{{Out("l0\nl1\n")}}}, "x": {}}}
		xUp := func(w *World) bool { return w.launches["x#0"] > 0 }
		sc.API = [][]APICall{{
			{Op: "fn", Name: "range-before-start", When: xUp, Fn: func(w *World) (string, error) {
				l, err := w.Runner.GetProcessLog("a", 10, 0)
				return fmt.Sprint(len(l)), err
			}},
			{Op: "fn", Name: "subscribe-before-start", Fn: func(w *World) (string, error) {
				return "", w.Runner.GetLogsAndSubscribe("a", fol(w))
			}},
			{Op: "start", Name: "a"},
		}}
		sc.Check = func(w *World) []Violation {
			var vs []Violation
			for _, r := range w.apiRes {
				if r.Done && r.Err != nil && r.Call.Op == "fn" {
					vs = append(vs, viol("C18", "not-started-yet:"+r.Call.Name, "%s on a process that is %s and not started yet fails: %v", r.Call.Name, mark, r.Err))
				}
			}
			if len(vs) == 0 && w.Outcome != "deadlock" && len(w.apiRes) == 3 && w.apiRes[2].Done && w.apiRes[2].Err == nil {
				wrote := findEvent(w.pre(), 0, func(e Event) bool { return e.Kind == "write" && e.Proc == "a#0" }) >= 0
				f := fol(w)
				if wrote && (w.Outcome == "stuck" || w.Outcome == "completed") && strings.Join(f.stream, ",") != "l0,l1" {
					vs = append(vs, viol("C18", "not-started-yet:follower-lost", "a follower subscribed before the %s process was started received %v of its lines l0 l1", mark, f.stream))
				}
			}
			return vs
		}
		scs = append(scs, sc)
	}
	// a process that is renamed by a scale request (a -> a-0) while it has no running instance keeps its log: range
	// requests and subscriptions under the new name see the lines it wrote
	for _, beh := range []string{"completed", "running"} {
		beh := beh
		script := []Action{Out("l0\nl1\n")}
		if beh == "completed" {
			script = append(script, Exit(0))
		}
		sc := &Scenario{ID: "c18-runner-renamed-" + beh, K: 1, TickBudget: 2, EnvCost: 1,
			YAML:  projectYAML(nil, PC{Name: "a", Restart: "no"}, PC{Name: "x"}),
			Procs: map[string]*ProcScript{"a": {Launches: [][]Action{script, {}}}, "x": {}}}
		wrote := func(w *World) bool {
			if beh == "completed" {
				return w.lastStat["a"] == "Completed"
			}
			for _, f := range w.procs {
				if f.Name == "a" && f.pc >= len(f.script) && f.stdout != nil && len(f.stdout.buf) == 0 {
					return true
				}
			}
			return false
		}
		sc.API = [][]APICall{{
			{Op: "fn", Name: "range-before", When: wrote, Fn: func(w *World) (string, error) {
				l, err := w.Runner.GetProcessLog("a", 10, 0)
				return strings.Join(l, ","), err
			}},
			{Op: "scale", Name: "a", N: 2},
			{Op: "fn", Name: "range-after", Fn: func(w *World) (string, error) {
				l, err := w.Runner.GetProcessLog("a-0", 10, 0)
				return strings.Join(l, ","), err
			}},
			{Op: "fn", Name: "subscribe-after", Fn: func(w *World) (string, error) {
				f := &c18Follower{id: "renamed", tail: 10}
				err := w.Runner.GetLogsAndSubscribe("a-0", f)
				return strings.Join(f.snap, ","), err
			}},
		}}
		sc.Check = func(w *World) []Violation {
			var vs []Violation
			if len(w.apiRes) < 4 || !w.apiRes[3].Done || w.apiRes[0].Err != nil || w.apiRes[1].Err != nil {
				return nil
			}
			before := w.apiRes[0].Val
			for _, r := range w.apiRes[2:4] {
				if r.Err != nil {
					vs = append(vs, viol("C18", "renamed:"+r.Call.Name+":error", "%s for the renamed process a-0 (%s at the scale request) fails: %v", r.Call.Name, beh, r.Err))
				} else if !strings.HasPrefix(r.Val, before) {
					vs = append(vs, viol("C18", "renamed:"+r.Call.Name+":lost", "%s for the renamed process a-0 returns %q, the log held %q before the scale request", r.Call.Name, r.Val, before))
				}
			}
			return vs
		}
		scs = append(scs, sc)
	}
	if tier == "thorough" {
		mk("2w-2f", 2, 3, []int{0, 2}, true, 2, 1)
		mk("2w-1f-k2", 2, 3, []int{2}, true, 1, 2)
	}
	return scs
}

func c18Check(w *World) []Violation {
	var vs []Violation
	st, ok := w.Extra["c18"].(*c18State)
	if !ok {
		return nil
	}
	if w.Outcome != "completed" {
		vs = append(vs, viol("C18", "follower-blocks:"+blockedKinds(w, "api"), "log buffer operations did not all return (outcome %s, blocked %v)", w.Outcome, w.Blocked))
		return vs
	}
	all := st.buf.GetLogRange(st.buf.GetLogLength(), 0)
	pos := map[string]int{}
	for i, l := range all {
		pos[l] = i
	}
	tr := w.pre()
	for _, f := range st.followers {
		if !f.gotSnap {
			vs = append(vs, viol("C18", "handover:no-snapshot", "follower %s subscribed but never received its tail", f.id))
			continue
		}
		seq := append(append([]string(nil), f.snap...), f.stream...)
		// contiguous, in order, no duplicate
		for i := 1; i < len(seq); i++ {
			d := pos[seq[i]] - pos[seq[i-1]]
			switch {
			case d == 1:
			case d <= 0 && i >= len(f.snap):
				vs = append(vs, viol("C18", "handover:duplicate-or-order", "follower %s: %v then %v (log %v)", f.id, seq[i-1], seq[i], all))
			case d <= 0:
				vs = append(vs, viol("C18", "window:order", "follower %s tail out of order: %v", f.id, f.snap))
			default:
				vs = append(vs, viol("C18", "handover:gap", "follower %s misses %d line(s) between %v and %v (tail %v, stream %v, log %v)", f.id, d-1, seq[i-1], seq[i], f.snap, f.stream, all))
			}
		}
		// tail length: exactly min(tail, lines present at subscription)
		// completeness: every line whose Write was called after the subscription returned and
		// returned before unsubscribe was called must be in the stream
		subRet, unsubCall := -1, len(tr)
		for i, e := range tr {
			if e.Kind == "api-ret" && strings.HasPrefix(e.Data, "fn(subscribe:"+f.id) {
				subRet = i
			}
			if e.Kind == "api-call" && strings.HasPrefix(e.Data, "fn(unsubscribe:"+f.id) {
				unsubCall = i
			}
		}
		got := map[string]bool{}
		for _, l := range seq {
			got[l] = true
		}
		for i, e := range tr {
			if e.Kind == "api-call" && strings.HasPrefix(e.Data, "fn(write:") && i > subRet && subRet >= 0 {
				line := strings.TrimSuffix(strings.TrimPrefix(e.Data, "fn(write:"), ")")
				// find its return
				ret := findEvent(tr, i, func(x Event) bool { return x.Kind == "api-ret" && strings.HasPrefix(x.Data, "fn(write:"+line+")") })
				if ret >= 0 && ret < unsubCall && !got[line] {
					vs = append(vs, viol("C18", "handover:gap", "follower %s never received %s written after its subscription", f.id, line))
				}
			}
		}
		if len(seq) > 0 && unsubCall == len(tr) && pos[seq[len(seq)-1]] != len(all)-1 {
			vs = append(vs, viol("C18", "handover:gap", "follower %s stream ends at %s but the log ends at %s", f.id, seq[len(seq)-1], all[len(all)-1]))
		}
		if len(f.snap) > f.tail && f.tail > 0 {
			vs = append(vs, viol("C18", "window:tail", "follower %s asked for a tail of %d, got %d lines", f.id, f.tail, len(f.snap)))
		}
	}
	return vs
}
