package vh

import (
	"vh/fastg"

	"bufio"
	"encoding/json"
	"flag"
	"fmt"
	"github.com/f1bonacc1/process-compose/src/vrt"
	"os"
	"path"
	"runtime"
	"sort"
	"strconv"
	"strings"
	"testing"
	"time"

	"github.com/rs/zerolog"
	"github.com/rs/zerolog/log"
)

var (
	fProp   = flag.String("prop", "", "property id (C01..C20)")
	fTier   = flag.String("tier", "quick", "quick|thorough")
	fShard  = flag.String("shard", "0/1", "i/n: scenarios with index%n==i")
	fOut    = flag.String("out", "", "result file (JSON lines)")
	fReplay = flag.String("replay", "", "replay file")
	fBudget = flag.Int("budget", 600, "wall-clock budget in seconds for this worker")
	fList   = flag.Bool("list", false, "list scenarios")
	fOnly   = flag.String("only", "", "run only the scenario with this id")
	fVerb   = flag.Bool("verbose", false, "print traces")
	fOSConf = flag.String("osconf", "", "run the E3 conformance cases against the real OS and write the result to this file")
	fBinary = flag.String("binary", "", "path of the process-compose binary for the binary-level E3 cases")
	fSkip   = flag.String("skip", "", "file with scenario ids to skip (one per line; scenarios that crashed the worker or were already done)")
)

// Property registry: scenario generators per property and tier.
type propDef struct {
	e1 func(tier string) []*Scenario
	e2 func(tier string, out *E2Out)
}

var registry = map[string]*propDef{}

func TestMain(m *testing.M) {
	flag.Parse()
	runtime.GOMAXPROCS(1)
	if fastg.Goid != nil && os.Getenv("VH_SLOWGOID") == "" {
		vrt.GoidFunc = fastg.Goid
	}
	// silence the application log only: the per-process log files are zerolog loggers too
	log.Logger = zerolog.Nop()
	devNull, _ = os.OpenFile(os.DevNull, os.O_WRONLY, 0)
	os.Exit(m.Run())
}

func TestWorker(t *testing.T) {
	if *fOSConf != "" {
		writeOSConf(*fOSConf, *fBinary)
		return
	}
	if *fProp == "" {
		t.Skip("no -prop")
	}
	curT = t
	curProp = *fProp
	def := registry[*fProp]
	if def == nil {
		t.Fatalf("unknown property %s", *fProp)
	}
	realStdout := os.Stdout
	if !*fVerb {
		os.Stdout = devNull
	}
	defer func() { os.Stdout = realStdout }()
	var out *bufio.Writer
	if *fOut != "" {
		f, err := os.Create(*fOut)
		if err != nil {
			t.Fatal(err)
		}
		defer f.Close()
		curFile, _ = os.Create(*fOut + ".cur")
		out = bufio.NewWriter(f)
		defer out.Flush()
	} else {
		out = bufio.NewWriter(realStdout)
		defer out.Flush()
	}
	emit := func(kind string, v any) {
		b, _ := json.Marshal(v)
		fmt.Fprintf(out, "%s %s\n", kind, b)
		out.Flush()
	}
	if fn := os.Getenv("VH_STATEDUMP"); fn != "" {
		stateDump = map[string]bool{}
		defer func() {
			var l []string
			for k := range stateDump {
				l = append(l, k)
			}
			sort.Strings(l)
			os.WriteFile(fn, []byte(strings.Join(l, "\n")), 0o644)
		}()
	}
	deadline := time.Now().Add(time.Duration(*fBudget) * time.Second)
	if *fReplay != "" {
		wantStacks = true
		replayFile(t, def, *fReplay, emit)
		return
	}
	parts := strings.Split(*fShard, "/")
	si, _ := strconv.Atoi(parts[0])
	sn, _ := strconv.Atoi(parts[1])
	if def.e1 != nil {
		scs := def.e1(*fTier)
		memBase = rssBytes()
		skip := map[string]bool{}
		if *fSkip != "" {
			if b, err := os.ReadFile(*fSkip); err == nil {
				for _, l := range strings.Split(string(b), "\n") {
					skip[l] = true
				}
			}
		}
		for i, sc := range scs {
			if skip[sc.ID] {
				continue
			}
			if *fList {
				fmt.Fprintf(realStdout, "%d %s k=%d %s\n", i, sc.ID, sc.K, sc.Note)
				continue
			}
			if g := os.Getenv("VH_ONLY_GLOB"); g != "" {
				// development aid: restrict every shard to the scenarios matching a glob
				if ok, _ := path.Match(g, sc.ID); !ok || i%sn != si {
					continue
				}
			} else if *fOnly != "" {
				if sc.ID != *fOnly {
					continue
				}
			} else if i%sn != si {
				continue
			}
			emit("B", map[string]any{"scenario": sc.ID})
			st := ExploreScenario(t, sc, deadline)
			if os.Getenv("VH_DBG") != "" {
				fmt.Fprintf(os.Stderr, "DBG rounds=%d execs=%d\n", dbgRounds, st.ExecsTotal)
			}
			emit("S", st)
			if (memExceeded || memGrowth() > memSoft) && os.Getenv("VH_NO_RESTART") == "" && *fOut != "" {
				// ask the driver for a fresh process: it continues with the scenarios not done yet
				emit("M", map[string]any{"rss_mb": rssBytes() >> 20})
				out.Flush()
				os.Stdout = realStdout
				os.Exit(75)
			}
			memExceeded = false
		}
	}
	if def.e2 != nil && !*fList {
		o := &E2Out{Shard: si, NShards: sn, Deadline: deadline}
		def.e2(*fTier, o)
		emit("E2", o)
	}
}

type replayDoc struct {
	Property string `json:"property"`
	Scenario string `json:"scenario"`
	Tier     string `json:"tier"`
	Choices  []int  `json:"choices"`
	Sig      string `json:"signature"`
}

func replayFile(t *testing.T, def *propDef, file string, emit func(string, any)) {
	b, err := os.ReadFile(file)
	if err != nil {
		t.Fatal(err)
	}
	var doc replayDoc
	if err := json.Unmarshal(b, &doc); err != nil {
		t.Fatal(err)
	}
	tier := doc.Tier
	if tier == "" {
		tier = *fTier
	}
	for _, sc := range def.e1(tier) {
		if sc.ID != doc.Scenario {
			continue
		}
		w := RunExecution(t, sc, doc.Choices)
		defer sc.Cleanup()
		var vs []Violation
		vs = append(vs, genericCheck(w)...)
		if sc.Check != nil {
			vs = append(vs, sc.Check(w)...)
		}
		res := map[string]any{"scenario": sc.ID, "outcome": w.Outcome, "violations": vs, "labels": chosenLabels(w), "trace": traceStrings(w), "blocked": w.Blocked, "stacks": w.Extra["stacks"]}
		emit("R", res)
		found := false
		for _, v := range vs {
			if doc.Sig == "" || v.Sig == doc.Sig {
				found = true
			}
		}
		if found {
			t.Errorf("replay reproduces the violation: %v", vs)
		}
		return
	}
	t.Fatalf("scenario %s not found", doc.Scenario)
}

// E2Out is the result of a bounded-exhaustive enumeration check (engine E2).
type E2Out struct {
	Shard, NShards int
	Deadline       time.Time        `json:"-"`
	Evaluations    int              `json:"evaluations"`
	Distinct       int              `json:"distinct_nontrivial"`
	Exhaustive     bool             `json:"exhaustive"`
	Rule           string           `json:"rule"`
	Samples        []string         `json:"samples"`
	Violations     []FoundViolation `json:"violations,omitempty"`
	Extra          map[string]any   `json:"extra,omitempty"`
}
