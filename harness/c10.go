package vh

// C10 Health probes: Ready only after success; threshold failures stop and restart.

import (
	"fmt"
	"strings"
	"time"

	"github.com/f1bonacc1/process-compose/src/health"
)

func init() { registry["C10"] = &propDef{e1: c10Scenarios, e2: c10E2} }

func c10Scenarios(tier string) []*Scenario {
	var scs []*Scenario
	thresholds := []int{1, 2, 3}
	policies := []string{"no", "always", "on_failure"}
	delays := []int{0, 2}
	maxExtra := 2
	if tier == "thorough" {
		maxExtra = 3
	}
	for _, thr := range thresholds {
		for _, pol := range policies {
			for _, delay := range delays {
				if tier != "thorough" && delay == 2 && thr != 2 {
					continue
				}
				// all answer sequences of length thr+maxExtra over {ok, fail} (the last answer repeats)
				n := thr + maxExtra
				if tier != "thorough" && n > 4 {
					n = 4
				}
				for bits := 0; bits < 1<<n; bits++ {
					var ans []string
					for i := 0; i < n; i++ {
						if bits>>i&1 == 1 {
							ans = append(ans, "fail")
						} else {
							ans = append(ans, "ok")
						}
					}
					for _, api := range []string{"none", "restart", "stop"} {
						if api != "none" && (tier != "thorough" && (thr != 2 || bits%3 != 0)) {
							continue
						}
						scs = append(scs, c10Scenario(thr, pol, delay, ans, api, false))
					}
				}
			}
		}
	}
	// a Ready (or Not Ready) process that exits by itself and is relaunched by its policy: readiness must be forgotten
	for _, pol := range []string{"always", "on_failure"} {
		for _, ans := range [][]string{{"ok"}, {"fail", "ok"}, {"ok", "ok", "fail"}} {
			sc := c10Scenario(3, pol, 0, ans, "none", false)
			sc.ID += "-selfexit"
			sc.Procs["a"] = &ProcScript{Launches: [][]Action{{Exit(1)}, {}}}
			sc.TickBudget = 3
			scs = append(scs, sc)
		}
	}
	// a probe command that does not end with an exit code of its own (it is killed by a signal; the same holds for
	// one that is killed when its time-out expires): that is a failed probe like any other
	for _, pol := range policies {
		for _, ans := range [][]string{{"sigkill"}, {"sigkill", "ok"}, {"ok", "sigkill", "sigkill"}, {"sigkill", "fail", "ok"}, {"ok", "ok", "sigkill", "ok"}} {
			for _, daemon := range []bool{false, true} {
				scs = append(scs, c10Scenario(2, pol, 0, ans, "none", daemon))
			}
		}
	}
	// daemon with a liveness probe
	for _, pol := range policies {
		for _, ans := range [][]string{{"ok", "fail", "fail"}, {"fail", "fail"}, {"ok", "ok", "fail", "ok", "fail", "fail"}} {
			scs = append(scs, c10Scenario(2, pol, 0, ans, "none", true))
		}
	}
	// a hung process: it ignores the SIGTERM sent after failure_threshold failed probes; with shutdown.timeout_seconds it is
	// killed after that time and then handled by its restart policy
	for _, pol := range []string{"always", "no"} {
		pol := pol
		pc := PC{Name: "a", Restart: pol, Backoff: 1, Lines: []string{"shutdown:", "  timeout_seconds: 2",
			"readiness_probe:", "  exec:", fmt.Sprintf("    command: %q", probeCmd("a")), "  period_seconds: 1", "  failure_threshold: 2"}}
		sc := &Scenario{
			ID:         "c10-hung-process-" + pol,
			YAML:       projectYAML(nil, pc),
			Procs:      map[string]*ProcScript{"a": {OnTerm: "ignore"}},
			Aux:        map[string][]string{probeCmd("a"): {"fail"}},
			K:          1,
			TickBudget: 3,
			Horizon:    9 * time.Second,
		}
		sc.Check = func(w *World) []Violation {
			tr := w.pre()
			term := findEvent(tr, 0, func(e Event) bool { return e.Kind == "signal" && e.Proc == "a#0" && e.Sig == 15 })
			endT := w.preEndT() // the observed part of the execution ends here, whether or not anything happened lately
			if term < 0 || endT-tr[term].T < 4*time.Second {
				return nil
			}
			kill := findEvent(tr, term, func(e Event) bool { return e.Kind == "signal" && e.Proc == "a#0" && e.Sig == 9 })
			if kill < 0 {
				return []Violation{viol("C10", "threshold:no-kill", "the process ignored the SIGTERM that followed %d failed probes (t=%v); no SIGKILL after shutdown.timeout_seconds 2 (observed until t=%v, status %s)", 2, tr[term].T, endT, statusAt(tr, "a", len(tr)))}
			}
			// (the killed command's death is an event of the environment: the relaunch is due once it has happened)
			ex := findEvent(tr, kill, func(e Event) bool { return e.Kind == "exit" && e.Proc == "a#0" })
			if pol == "always" && ex >= 0 && endT-tr[ex].T >= 3*time.Second &&
				findEvent(tr, ex, func(e Event) bool { return e.Kind == "start" && e.Proc == "a#0" }) < 0 {
				return []Violation{viol("C10", "no-restart-after-threshold:"+pol, "hung process killed after the probe threshold was not relaunched (policy %s)", pol)}
			}
			return nil
		}
		scs = append(scs, sc)
	}
	// ready_log_line together with a readiness probe: the loader refuses the combination; if it ever loads, Ready
	// is still only reported after a probe has succeeded (the probe here never does, the line is printed at once)
	for _, strict := range []bool{false, true} {
		var global []string
		if strict {
			global = append(global, "is_strict: true")
		}
		pc := PC{Name: "a", Lines: []string{"ready_log_line: \"READY\"", "readiness_probe:", "  exec:", fmt.Sprintf("    command: %q", probeCmd("a")),
			"  period_seconds: 1", "  initial_delay_seconds: 2", "  failure_threshold: 30"}}
		sc := &Scenario{
			ID:         fmt.Sprintf("c10-ready-line-and-probe-strict%v", strict),
			YAML:       projectYAML(global, pc),
			Procs:      map[string]*ProcScript{"a": {Launches: [][]Action{{Out("READY\n")}}}},
			Aux:        map[string][]string{probeCmd("a"): {"fail"}},
			K:          1,
			TickBudget: 2,
			Horizon:    6 * time.Second,
			Snap:       true,
		}
		sc.Check = func(w *World) []Violation {
			if w.Outcome == "loaderror" {
				return nil
			}
			return c10Check(w, 30, "no", false)
		}
		scs = append(scs, sc)
	}
	// daemon with both probes: liveness declares it dead and it is relaunched; readiness keeps giving the same
	// answer before and after. The reported health follows the most recent readiness answer since the launch.
	for _, ready := range []string{"ok", "fail"} {
		ready := ready
		pc := PC{Name: "a", Restart: "always", Backoff: 1, Lines: []string{"is_daemon: true",
			"liveness_probe:", "  exec:", "    command: \"probe-live-a\"", "  period_seconds: 1", "  failure_threshold: 2",
			"readiness_probe:", "  exec:", "    command: \"probe-ready-a\"", "  period_seconds: 1", "  failure_threshold: 30"}}
		sc := &Scenario{
			ID:         "c10-daemon-both-probes-ready[" + ready + "]",
			YAML:       projectYAML(nil, pc),
			Procs:      map[string]*ProcScript{"a": {Launches: exits(0)}},
			Aux:        map[string][]string{"probe-live-a": {"ok", "fail", "fail", "ok"}, "probe-ready-a": {ready}},
			K:          1,
			TickBudget: 2,
			Horizon:    9 * time.Second,
			Snap:       true,
		}
		sc.Check = func(w *World) []Violation {
			var vs []Violation
			tr := w.pre()
			for _, sn := range w.Snapshots {
				st, ok := sn.States["a"]
				if !ok || sn.T > w.preEndT() || st.Status != "Launched" {
					continue
				}
				last, lastT := "", time.Duration(0)
				for i := 0; i < sn.Pos && i < len(tr); i++ {
					e := tr[i]
					if e.Kind == "start" && e.Proc == key0("a") {
						last = ""
					}
					if e.Kind == "aux-ans" && e.Proc == "aux:probe-ready-a" {
						last, lastT = e.Data, e.T
					}
				}
				if last == "" || sn.T-lastT < quantum {
					continue
				}
				want := "Ready"
				if last != "ok" {
					want = "Not Ready"
				}
				if st.Health != want {
					vs = append(vs, viol("C10", "health-stale:daemon:"+last, "the last readiness answer since the daemon's launch was %q (t=%v) but it is reported %q at t=%v", last, lastT, st.Health, sn.T))
					break
				}
			}
			return vs
		}
		scs = append(scs, sc)
	}
	return scs
}

func c10Scenario(thr int, pol string, delay int, ans []string, api string, daemon bool) *Scenario {
	kind := "readiness_probe"
	pc := PC{Name: "a", Restart: pol, Backoff: 1}
	if daemon {
		kind = "liveness_probe"
		pc.Lines = append(pc.Lines, "is_daemon: true")
	}
	pc.Lines = append(pc.Lines, kind+":", "  exec:", fmt.Sprintf("    command: %q", probeCmd("a")), "  period_seconds: 1",
		fmt.Sprintf("  initial_delay_seconds: %d", delay), fmt.Sprintf("  failure_threshold: %d", thr))
	sc := &Scenario{
		ID:         fmt.Sprintf("c10-thr%d-%s-delay%d-%s-%s-daemon%v", thr, pol, delay, strings.Join(ans, ""), api, daemon),
		YAML:       projectYAML(nil, pc),
		Procs:      map[string]*ProcScript{"a": {}},
		Aux:        map[string][]string{probeCmd("a"): ans},
		K:          1,
		TickBudget: 2,
		Horizon:    time.Duration(len(ans)+delay+5) * time.Second,
		Snap:       true,
	}
	if daemon {
		sc.Procs["a"] = &ProcScript{Launches: exits(0)} // the command forks and exits 0
	}
	launched := func(w *World) bool { return len(w.procs) > 0 }
	switch api {
	case "restart":
		sc.API = [][]APICall{{{Op: "restart", Name: "a", When: launched}}}
	case "stop":
		sc.API = [][]APICall{{{Op: "stop", Name: "a", When: launched}}}
	}
	sc.Check = func(w *World) []Violation { return c10Check(w, thr, pol, daemon) }
	return sc
}

func c10Check(w *World, thr int, pol string, daemon bool) []Violation {
	var vs []Violation
	tr := w.pre()
	key := key0("a")
	probe := "aux:" + probeCmd("a")
	// ---- threshold => stop (=> restart) -----------------------------------------
	consec := 0
	lastStart := -1
	apiStop := false
	thresholdAt := -1
	for i, e := range tr {
		switch {
		case e.Kind == "start" && e.Proc == key:
			lastStart, consec, thresholdAt = i, 0, -1
		case e.Kind == "api-call":
			apiStop = true
		case e.Kind == "aux-ans" && e.Proc == probe:
			if e.Data == "ok" {
				consec = 0
			} else {
				consec++
				if consec == thr && thresholdAt < 0 {
					thresholdAt = i
				}
			}
		case e.Kind == "signal" && e.Proc == key && !apiStop && !daemon:
			if thresholdAt < 0 {
				vs = append(vs, viol("C10", "threshold:early", "stop signal after %d consecutive probe failures, threshold %d", consec, thr))
			}
		}
	}
	_ = lastStart
	settled := w.Outcome != "deadlock"
	if !daemon && !apiStop && settled {
		// for each launch: threshold reached => signal => (policy) relaunch
		var launches []int
		for i, e := range tr {
			if e.Kind == "start" && e.Proc == key {
				launches = append(launches, i)
			}
		}
		for li, s := range launches {
			end := len(tr)
			if li+1 < len(launches) {
				end = launches[li+1]
			}
			c, reached := 0, -1
			for i := s; i < end; i++ {
				if tr[i].Kind == "aux-ans" && tr[i].Proc == probe {
					if tr[i].Data == "ok" {
						c = 0
					} else if c++; c == thr {
						reached = i
						break
					}
				}
			}
			if reached < 0 {
				continue
			}
			// leave time for the reaction: only judge when the execution completed or at
			// least 3 virtual seconds of trace follow
			lastT := tr[len(tr)-1].T
			done := w.Outcome == "completed"
			if !done && lastT-tr[reached].T < 3*time.Second {
				continue
			}
			sig := findEvent(tr, reached, func(e Event) bool { return e.Kind == "signal" && e.Proc == key })
			if sig < 0 || sig > end {
				vs = append(vs, viol("C10", "threshold:none", "%d consecutive readiness failures (threshold %d) but the process was not stopped", thr, thr))
				continue
			}
			ex := findEvent(tr, sig, func(e Event) bool { return e.Kind == "exit" && e.Proc == key })
			if ex < 0 {
				continue
			}
			if pol == "always" || pol == "on_failure" {
				if li+1 >= len(launches) && (done || lastT-tr[ex].T >= 3*time.Second) {
					vs = append(vs, viol("C10", "no-restart-after-threshold:"+pol, "process stopped after %d readiness failures was not relaunched (policy %s, final status %s)", thr, pol, statusAt(tr, "a", len(tr))))
				}
			} else if li+1 < len(launches) {
				vs = append(vs, viol("C10", "restart-after-threshold:"+pol, "process stopped after readiness failures was relaunched although its policy is %s", pol))
			}
		}
	}
	// ---- reported health at quiescent snapshots -----------------------------------
	for _, sn := range w.Snapshots {
		st, ok := sn.States["a"]
		if !ok || sn.T > w.preEndT() {
			continue
		}
		okSince, failSince, lastAns := false, false, ""
		ls := -1
		for i := 0; i < sn.Pos && i < len(tr); i++ {
			e := tr[i]
			if e.Kind == "start" && e.Proc == key {
				ls, okSince, failSince, lastAns = i, false, false, ""
			}
			if e.Kind == "aux-ans" && e.Proc == probe && ls >= 0 {
				if e.Data == "ok" {
					okSince = true
				} else {
					failSince = true
				}
				lastAns = e.Data
			}
		}
		if !daemon && st.Status == "Running" && lastAns != "" {
			// completeness: the reported health follows the most recent probe answer
			want := "Ready"
			if lastAns != "ok" {
				want = "Not Ready"
			}
			if st.Health != want {
				vs = append(vs, viol("C10", "health-stale:"+lastAns, "last probe answer since the launch was %q but the process is reported %q", lastAns, st.Health))
			}
		}
		if !daemon {
			switch st.Health {
			case "Ready":
				if !okSince {
					vs = append(vs, viol("C10", "ready-without-success:"+st.Status, "process reported Ready (status %s) although no probe has succeeded since its last launch", st.Status))
				}
			case "Not Ready":
				if !failSince {
					vs = append(vs, viol("C10", "notready-without-failure:"+st.Status, "process reported Not Ready (status %s) although no probe has failed since its last launch", st.Status))
				}
			}
			if (st.Status == "Restarting" || st.Status == "Terminating") && st.Health != "-" {
				vs = append(vs, viol("C10", "health-not-reset:"+st.Status, "health is %q while the process is %s", st.Health, st.Status))
			}
		}
	}
	// ---- stale prober: no probe runs for a process that has had no command for 2 periods ---
	if !daemon {
		lastExitT := time.Duration(-1)
		alive := false
		for _, e := range tr {
			switch {
			case e.Kind == "start" && e.Proc == key:
				alive = true
			case e.Kind == "exit" && e.Proc == key:
				alive = false
				lastExitT = e.T
			case e.Kind == "aux-req" && e.Proc == probe:
				if !alive && lastExitT >= 0 && e.T-lastExitT >= 2*time.Second && statusAt(tr, "a", len(tr)) != "Restarting" {
					st := ""
					for _, x := range tr {
						if x.T <= e.T && x.Kind == "state" && x.Proc == "a" {
							st = x.Data
						}
					}
					if st == "Completed" || st == "Error" {
						vs = append(vs, viol("C10", "stale-prober", "probe command runs at t=%v although the process ended at t=%v (status %s)", e.T, lastExitT, st))
					}
				}
			}
		}
	}
	// ---- daemon liveness: threshold => treated as exited => policy -------------------
	if daemon && settled {
		c, reached := 0, -1
		for i, e := range tr {
			if e.Kind == "aux-ans" && e.Proc == probe {
				if e.Data == "ok" {
					c = 0
				} else if c++; c == thr && reached < 0 {
					reached = i
				}
			}
		}
		if reached >= 0 && (w.Outcome == "completed" || tr[len(tr)-1].T-tr[reached].T >= 3*time.Second) {
			// after the threshold the daemon must no longer be reported Launched unless it was relaunched
			launches := 0
			for _, e := range tr[reached:] {
				if e.Kind == "start" && e.Proc == key {
					launches++
				}
			}
			final := statusAt(tr, "a", len(tr))
			switch pol {
			case "always":
				if launches == 0 {
					vs = append(vs, viol("C10", "daemon-no-restart:"+pol, "daemon declared dead by its liveness probe was not relaunched (final status %s)", final))
				}
			default:
				if final == "Launched" {
					vs = append(vs, viol("C10", "daemon-not-exited:"+pol, "daemon declared dead by its liveness probe is still reported Launched"))
				}
			}
		}
	}
	return vs
}

// ---- E2: effective probe parameters are legal whatever is configured ---------------

func c10E2(tier string, o *E2Out) {
	o.Rule = "E2: Probe.ValidateAndSetDefaults over initial_delay, period, timeout, success_threshold, failure_threshold in {-1,0,1,2} (4^5) x http port string in {\"\",\"0\",\"1\",\"65535\",\"65536\",\"-1\",\"x\",\" 80\"} x num_port preset to {70000,-5,65536,8080} x {exec, http}; effective values must be legal (period, timeout, thresholds >= 1, initial delay >= 0, port in 1..65535 or unset) and legal configured values must be kept. Non-trivial = at least one value out of range."
	o.Exhaustive = true
	vals := []int{-1, 0, 1, 2}
	ports := []string{"", "0", "1", "65535", "65536", "-1", "x", " 80"}
	idx := 0
	for _, d := range vals {
		for _, p := range vals {
			for _, t := range vals {
				for _, s := range vals {
					for _, f := range vals {
						idx++
						if !o.mine(idx) {
							continue
						}
						for _, port := range ports {
							for _, http := range []bool{false, true} {
								pr := health.Probe{InitialDelay: d, PeriodSeconds: p, TimeoutSeconds: t, SuccessThreshold: s, FailureThreshold: f}
								if http {
									pr.HttpGet = &health.HttpProbe{Port: port}
								} else {
									pr.Exec = &health.ExecProbe{Command: "x"}
								}
								pr.ValidateAndSetDefaults()
								o.Evaluations++
								if d < 0 || p < 1 || t < 1 || s < 1 || f < 1 {
									o.Distinct++
								}
								in := map[string]any{"initial_delay": d, "period": p, "timeout": t, "success": s, "failure": f, "port": port, "http": http}
								if pr.InitialDelay < 0 || pr.PeriodSeconds < 1 || pr.TimeoutSeconds < 1 || pr.SuccessThreshold < 1 || pr.FailureThreshold < 1 {
									o.violation("C10", "illegal-default:numeric", fmt.Sprintf("effective probe %+v", pr), in)
								}
								if (d >= 0 && pr.InitialDelay != d) || (p >= 1 && pr.PeriodSeconds != p) || (t >= 1 && pr.TimeoutSeconds != t) || (s >= 1 && pr.SuccessThreshold != s) || (f >= 1 && pr.FailureThreshold != f) {
									o.violation("C10", "illegal-default:legal-value-changed", fmt.Sprintf("legal configured value changed: %+v", pr), in)
								}
								if http && (pr.HttpGet.NumPort < 0 || pr.HttpGet.NumPort > 65535) {
									o.violation("C10", "illegal-default:port", fmt.Sprintf("effective port %d", pr.HttpGet.NumPort), in)
								}
								if http && (port == "1" && pr.HttpGet.NumPort != 1 || port == "65535" && pr.HttpGet.NumPort != 65535) {
									o.violation("C10", "illegal-default:port-lost", fmt.Sprintf("port %q became %d", port, pr.HttpGet.NumPort), in)
								}
								// num_port can be given directly as well (YAML key num_port, JSON configuration): whatever
								// arrives in it, the effective port is the legal value of the port string or unset
								if http {
									for _, np := range []int{70000, -5, 65536, 8080} {
										pr2 := health.Probe{HttpGet: &health.HttpProbe{Port: port, NumPort: np}}
										pr2.ValidateAndSetDefaults()
										o.Evaluations++
										want := 0
										switch port {
										case "1":
											want = 1
										case "65535":
											want = 65535
										case "":
											if np >= 1 && np <= 65535 {
												want = -1 // unspecified which of the two: legal either way
											}
										}
										got := pr2.HttpGet.NumPort
										if got < 0 || got > 65535 || (want >= 0 && got != want) {
											o.violation("C10", "illegal-default:num_port", fmt.Sprintf("port %q with num_port %d gives the effective port %d", port, np, got), map[string]any{"port": port, "num_port": np})
										}
									}
								}
								if idx == 77 && port == "65536" && http {
									o.sample(fmt.Sprintf("%v -> %+v port %d", in, pr, pr.HttpGet.NumPort))
								}
							}
						}
					}
				}
			}
		}
	}
}
