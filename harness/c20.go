package vh

// C20 Concurrent API use is safe: no crash, no deadlock, no call blocking forever.
// (The data-race clause is outside what a cooperative scheduler can observe; see DESIGN.)

import (
	"fmt"
	"strings"
	"time"
)

func init() { registry["C20"] = &propDef{e1: c20Scenarios} }

type c20Obs struct{ id string }

func (o *c20Obs) WriteString(l string) (int, error) { return len(l), nil }
func (o *c20Obs) SetLines(ls []string)              {}
func (o *c20Obs) GetTailLength() int                { return 5 }
func (o *c20Obs) GetUniqueID() string               { return o.id }

func c20Ops() []APICall {
	fn := func(label string, f func(w *World) (string, error)) APICall {
		return APICall{Op: "fn", Name: label, Fn: f}
	}
	return []APICall{
		fn("states", func(w *World) (string, error) { _, err := w.Runner.GetProcessesState(); return "", err }),
		fn("state(a)", func(w *World) (string, error) { _, err := w.Runner.GetProcessState("a"); return "", err }),
		fn("project-state", func(w *World) (string, error) { _, err := w.Runner.GetProjectState(false); return "", err }),
		fn("log(a)", func(w *World) (string, error) { _, err := w.Runner.GetProcessLog("a", 10, 3); return "", err }),
		fn("subscribe(a)", func(w *World) (string, error) {
			o := &c20Obs{id: fmt.Sprintf("obs-%d", len(w.trace))}
			if err := w.Runner.GetLogsAndSubscribe("a", o); err != nil {
				return "", err
			}
			return "", w.Runner.UnSubscribeLogger("a", o)
		}),
		fn("info(a)", func(w *World) (string, error) { _, err := w.Runner.GetProcessInfo("a"); return "", err }),
		fn("reload", func(w *World) (string, error) { _, err := w.Runner.ReloadProject(); return "", err }),
		{Op: "start", Name: "a"},
		{Op: "stop", Name: "a"},
		{Op: "restart", Name: "a"},
		{Op: "scale", Name: "a", N: 2},
		{Op: "update", YAML: c20YAML(true)},
		{Op: "shutdown"},
		// a single-process edit (TUI edit, POST /process) of b
		fn("edit(b)", func(w *World) (string, error) {
			p, err := w.LoadYAML(fmt.Sprintf("edit-%d.yaml", len(w.trace)), strings.Replace(c20YAML(true), "K=2", "K=3", 1))
			if err != nil {
				return "", err
			}
			pc := p.Processes["b"]
			return "", w.Runner.UpdateProcess(&pc)
		}),
	}
}

func c20YAML(changed bool) string {
	a := PC{Name: "a", Restart: "always", Backoff: 1}
	b := PC{Name: "b", Lines: []string{"environment:", "  - 'K=1'"}}
	if changed {
		b.Lines = []string{"environment:", "  - 'K=2'"}
	}
	return projectYAML(nil, a, b)
}

func c20Scenarios(tier string) []*Scenario {
	var scs []*Scenario
	ops := c20Ops()
	k := 1
	if tier == "thorough" {
		k = 2
	}
	launched := func(w *World) bool { return len(w.procs) >= 2 }
	label := func(c APICall) string {
		if c.Op == "fn" {
			return c.Name
		}
		return c.String()
	}
	for i := range ops {
		for j := i; j < len(ops); j++ {
			c1, c2 := ops[i], ops[j]
			c1.When, c2.When = launched, launched
			edit := c1.Name == "edit(b)" || c2.Name == "edit(b)"
			if edit && c1.Op == "fn" && c1.Name != "reload" && c1.Name != "edit(b)" {
				continue // (the edit is paired with the state-changing requests; queries are paired with update and reload)
			}
			tb := 1
			if tier != "thorough" && (c1.Op == "scale" || c2.Op == "scale" || c1.Op == "update" || c2.Op == "update" || c1.Name == "edit(b)" || c2.Name == "edit(b)") && c1.Op != "restart" && c2.Op != "restart" {
				tb = 0 // the heavy pairs: no free timer choice in quick mode (restart is the only request that sleeps)
			}
			if edit {
				tb = 0
			}
			sc := &Scenario{
				ID:   "c20-" + label(c1) + "|" + label(c2),
				YAML: c20YAML(false),
				Procs: map[string]*ProcScript{
					"a": {Launches: [][]Action{{Out("a-line-1\n"), Exit(1)}, {}}},
					"b": {},
				},
				K: k, TickBudget: tb, Idle: 12 * time.Second,
				API: [][]APICall{{c1}, {c2}},
			}
			if edit && tier != "thorough" && (c1.Op == "scale" || c2.Op == "scale") {
				sc.K = 0 // the heaviest pair (two renames and two replacements): event orders only in the quick tier
			}
			pair := label(c1) + "|" + label(c2)
			sc.Check = func(w *World) []Violation { return c20Check(w, pair) }
			scs = append(scs, sc)
		}
	}
	if tier == "thorough" {
		// selected triples
		tri := [][3]int{{0, 8, 9}, {0, 10, 11}, {4, 9, 12}, {1, 7, 8}, {3, 10, 12}, {6, 9, 10}}
		for _, t := range tri {
			var api [][]APICall
			var ls []string
			for _, i := range t {
				c := ops[i]
				c.When = launched
				api = append(api, []APICall{c})
				ls = append(ls, label(c))
			}
			sc := &Scenario{ID: "c20-" + strings.Join(ls, "|"), YAML: c20YAML(false), K: 1, TickBudget: 2, Idle: 20 * time.Second, API: api,
				Procs: map[string]*ProcScript{"a": {Launches: [][]Action{{Out("a-line-1\n"), Exit(1)}, {}}}, "b": {}}}
			pair := strings.Join(ls, "|")
			sc.Check = func(w *World) []Violation { return c20Check(w, pair) }
			scs = append(scs, sc)
		}
	}
	return scs
}

func c20Check(w *World, pair string) []Violation {
	var vs []Violation
	if w.Outcome == "deadlock" || w.Outcome == "stuck" {
		for _, r := range w.apiRes {
			if !r.Done {
				op := r.Call.Name
				if r.Call.Op != "fn" {
					op = r.Call.Op
				}
				vs = append(vs, viol("C20", "blocked:"+op+":"+blockedKinds(w, "api")+"@"+pair, "%s did not return (outcome %s, blocked %v)", op, w.Outcome, w.Blocked))
			}
		}
	}
	return vs
}
