package vh

// C15 Config merge: override wins, nothing the override does not mention is lost.

import (
	"encoding/json"
	"fmt"
	"os"
	"path/filepath"
	"sort"
	"strings"

	"github.com/f1bonacc1/process-compose/src/types"
)

func init() { registry["C15"] = &propDef{e2: c15E2} }

// a configuration file as a nested map (string keys; values: string, int, bool, []string, map)
type cfgMap map[string]any

func emitYAML(b *strings.Builder, m cfgMap, indent int) {
	keys := make([]string, 0, len(m))
	for k := range m {
		keys = append(keys, k)
	}
	sort.Strings(keys)
	pad := strings.Repeat("  ", indent)
	for _, k := range keys {
		switch v := m[k].(type) {
		case cfgMap:
			fmt.Fprintf(b, "%s%s:\n", pad, k)
			emitYAML(b, v, indent+1)
		case []string:
			fmt.Fprintf(b, "%s%s:\n", pad, k)
			for _, s := range v {
				fmt.Fprintf(b, "%s  - %s\n", pad, yamlStr(s))
			}
		case string:
			fmt.Fprintf(b, "%s%s: %s\n", pad, k, yamlStr(v))
		default:
			fmt.Fprintf(b, "%s%s: %v\n", pad, k, v)
		}
	}
}

func yamlStr(s string) string {
	return "'" + strings.ReplaceAll(s, "'", "''") + "'"
}

func (m cfgMap) set(path string, v any) {
	parts := strings.Split(path, ".")
	cur := m
	for _, p := range parts[:len(parts)-1] {
		nx, ok := cur[p].(cfgMap)
		if !ok {
			nx = cfgMap{}
			cur[p] = nx
		}
		cur = nx
	}
	cur[parts[len(parts)-1]] = v
}

func (m cfgMap) clone() cfgMap {
	c := cfgMap{}
	for k, v := range m {
		switch x := v.(type) {
		case cfgMap:
			c[k] = x.clone()
		case []string:
			c[k] = append([]string(nil), x...)
		default:
			c[k] = v
		}
	}
	return c
}

// refFold merges override into base: later wins per key; maps merged recursively;
// environment lists merged by key (text before the first '='), later wins, result sorted.
func refFold(base, over cfgMap) cfgMap {
	out := base.clone()
	for k, v := range over {
		switch x := v.(type) {
		case cfgMap:
			if b, ok := out[k].(cfgMap); ok {
				out[k] = refFold(b, x)
			} else {
				out[k] = x.clone()
			}
		case []string:
			if k == "environment" {
				b, _ := out[k].([]string)
				out[k] = foldEnv(b, x)
			} else {
				out[k] = append([]string(nil), x...)
			}
		default:
			out[k] = v
		}
	}
	return out
}

func envKey(s string) string {
	if i := strings.Index(s, "="); i >= 0 {
		return s[:i]
	}
	return s
}

func foldEnv(base, over []string) []string {
	m := map[string]string{}
	for _, e := range base {
		m[envKey(e)] = e
	}
	for _, e := range over {
		m[envKey(e)] = e
	}
	var out []string
	for _, e := range m {
		out = append(out, e)
	}
	sort.Strings(out)
	return out
}

func yamlOf(m cfgMap) string {
	var b strings.Builder
	emitYAML(&b, m, 0)
	return b.String()
}

// merged view of a loaded project: everything a user can observe, JSON, deterministic
func mergedView(p *types.Project) string {
	type view struct {
		LogLocation, LogLevel string
		LogLength             int
		IsStrict              bool
		Vars                  types.Vars
		EnvCommands           types.EnvCmd
		Environment           []string
		Shell                 any
		Processes             map[string]map[string]any
	}
	v := view{LogLocation: p.LogLocation, LogLevel: p.LogLevel, LogLength: p.LogLength, IsStrict: p.IsStrict, Vars: p.Vars,
		EnvCommands: p.EnvCommands, Shell: p.ShellConfig, Processes: map[string]map[string]any{}}
	v.Environment = append([]string(nil), p.Environment...)
	sort.Strings(v.Environment)
	for n, pc := range p.Processes {
		pv := procView(pc)
		env := append([]string(nil), pc.Environment...)
		sort.Strings(env)
		pv["Environment"] = env
		v.Processes[n] = pv
	}
	b, _ := json.Marshal(v)
	return string(b)
}

type c15Opt struct {
	path   string
	v1, v2 any
}

var c15ProcOpts = []c15Opt{
	{"command", "cmd one", "cmd two"},
	{"working_dir", "/", "/tmp"},
	{"namespace", "ns1", "ns2"},
	{"log_location", "/tmp/l1.log", "/tmp/l2.log"},
	{"description", "first", "second"},
	{"ready_log_line", "rdy1", "rdy2"},
	{"launch_timeout_seconds", 7, 9},
	{"disabled", true, true},
	{"is_daemon", true, true},
	{"replicas", 2, 3},
	{"availability.restart", "always", "on_failure"},
	{"availability.backoff_seconds", 3, 4},
	{"availability.max_restarts", 5, 6},
	{"availability.exit_on_end", true, true},
	{"shutdown.command", "stop one", "stop two"},
	{"shutdown.timeout_seconds", 11, 12},
	{"shutdown.signal", 2, 3},
	{"shutdown.parent_only", true, true},
	{"liveness_probe.exec.command", "chk one", "chk two"},
	{"liveness_probe.period_seconds", 21, 22},
	{"liveness_probe.failure_threshold", 4, 5},
}

var c15ProjOpts = []c15Opt{
	{"log_location", "/tmp/p1.log", "/tmp/p2.log"},
	{"log_level", "debug", "warn"},
	{"log_length", 77, 88},
	{"is_strict", true, true},
	{"vars.V", "one", "two"},
	{"env_cmds.EC", "echo one", "echo two"},
	{"shell.shell_command", "sh", "bash"},
	{"shell.shell_argument", "-c", "-ec"},
	{"shell.elevated_shell_command", "sudo", "doas"},
	{"shell.elevated_shell_argument", "-S", "-n"},
}

var c15EnvVals = []string{"", "x", "a=b", "x y", "\"q\"", "k=v=w", "%Y-%m-%d 100%", "$HOME/{{.X}}\\n"}

type c15Input struct {
	Kind     string `json:"kind"`
	Option   string `json:"option,omitempty"`
	Base     string `json:"base_yaml"`
	Override string `json:"override_yaml"`
	Third    string `json:"third_yaml,omitempty"`
}

func c15E2(tier string, o *E2Out) {
	o.Rule = "E2: two-file (thorough three-file) chains: (a) every documented single-valued option of the table (21 per process, 10 per project), one at a time, base in {unset,v1} x override in {unset,v2}, on a process present in both files that also carries untouched settings, the later file naming only that option or restating the whole definition, or naming another option of the same block (shell, availability, shutdown, liveness_probe); (b) environment entry A with every value of {\"\", x, a=b, 'x y', '\"q\"', k=v=w, '%Y-%m-%d 100%', '$HOME/{{.X}}\\n'} or absent in base x override, per process and global, next to an untouched entry B; (c) depends_on keys and processes only-in-base / only-in-override / both; (d) extends vs naming both files (working_dir empty / relative / absolute in the base); (e) three-level extends chains top -> mid -> base, the files side by side or each level one directory deeper than the file that extends it, against the explicit list base,mid,top. Oracle: the merged project equals a single-file load of the reference fold (later wins per key, environment split at the first '='). Non-trivial = both files mention something."
	o.Exhaustive = true
	dir, _ := os.MkdirTemp("", "vh-c15-")
	defer os.RemoveAll(dir)
	idx := 0
	baseProc := func() cfgMap {
		return cfgMap{"command": "keep cmd", "description": "keep me", "environment": []string{"B=keepb"},
			"depends_on": cfgMap{"q": cfgMap{"condition": "process_completed"}}}
	}
	skeleton := func(p cfgMap) cfgMap {
		return cfgMap{"version": "0.5", "processes": cfgMap{"p": p, "q": cfgMap{"command": "q cmd"}}}
	}
	run := func(kind, option string, files []cfgMap) {
		idx++
		if !o.mine(idx) {
			return
		}
		fold := files[0]
		for _, f := range files[1:] {
			fold = refFold(fold, f)
		}
		in := c15Input{Kind: kind, Option: option, Base: yamlOf(files[0]), Override: yamlOf(files[1])}
		fm := map[string]string{"fold.yaml": yamlOf(fold)}
		var names []string
		for i, f := range files {
			n := fmt.Sprintf("f%d.yaml", i)
			fm[n] = yamlOf(f)
			names = append(names, n)
		}
		if len(files) > 2 {
			in.Third = yamlOf(files[2])
		}
		o.Evaluations++
		if len(files[1]) > 1 {
			o.Distinct++
		}
		got, err := loadFiles(dir, fm, names, false)
		want, err2 := loadFiles(dir, fm, []string{"fold.yaml"}, false)
		if err2 != nil {
			// the folded configuration is itself invalid: the merge must be rejected as well
			if err == nil {
				o.violation("C15", "merge-accepts-invalid:"+kind, fmt.Sprintf("single-file load of the fold fails (%v) but the merge is accepted", err2), in)
			}
			return
		}
		if err != nil {
			o.violation("C15", "merge-error:"+kind, fmt.Sprintf("merge fails: %v", err), in)
			return
		}
		gv, wv := mergedView(got), mergedView(want)
		// the merge must not depend on map iteration order either
		for _, m := range []permMode{{Kind: "reverse-all"}, {Kind: "rotate-all"}} {
			var g2 *types.Project
			var e2 error
			withPerm(m, func() { g2, e2 = loadFiles(dir, fm, names, false) })
			o.Evaluations++
			if e2 != nil || mergedView(g2) != gv {
				o.violation("C15", "nondeterministic:"+kind, fmt.Sprintf("merge result depends on map iteration order (%s): %v", m, e2), in)
			}
		}
		if gv != wv {
			field := c15Diff(gv, wv)
			class := "override-lost"
			if c15Mentions(files[len(files)-1], option) == false {
				class = "base-lost"
			}
			sig := class + ":" + kind + ":" + field
			o.violation("C15", sig, fmt.Sprintf("merged project differs from the reference fold in %s\n got  %s\n want %s", field, c15Excerpt(gv, field), c15Excerpt(wv, field)), in)
		}
		if kind == "proc-option" && option == "description" {
			o.sample(fmt.Sprintf("base:\n%s override:\n%s", in.Base, in.Override))
		}
	}
	// (a) single-valued options
	for _, op := range c15ProcOpts {
		for _, bset := range []bool{false, true} {
			for _, oset := range []bool{false, true} {
				b, ov := baseProc(), cfgMap{}
				if bset {
					b.set(op.path, op.v1)
				}
				if oset {
					ov.set(op.path, op.v2)
				}
				over := cfgMap{"version": "0.5", "processes": cfgMap{"p": ov}}
				if !oset {
					ov["is_tty"] = false // the override file mentions the process, nothing else
				}
				run("proc-option", op.path, []cfgMap{skeleton(b), over})
				if bset && oset {
					// the later file restates the whole definition and differs in this one option only
					rest := baseProc()
					rest.set(op.path, op.v2)
					run("proc-option-restated", op.path, []cfgMap{skeleton(b), {"version": "0.5", "processes": cfgMap{"p": rest}}})
				}
				if tier == "thorough" && bset && oset {
					third := cfgMap{"version": "0.5", "processes": cfgMap{"p": cfgMap{"description": "third"}}}
					run("proc-option-3files", op.path, []cfgMap{skeleton(b), over, third})
				}
			}
		}
	}
	// list-valued options the later file does not mention (it mentions the process, and for the nested one the
	// enclosing block): the earlier file's list survives
	{
		b := baseProc()
		delete(b, "command")
		b.set("entrypoint", []string{"e1", "arg1"})
		run("proc-list-option", "entrypoint", []cfgMap{skeleton(b), {"version": "0.5", "processes": cfgMap{"p": cfgMap{"description": "later"}}}})
		b2 := baseProc()
		b2.set("log_configuration.fields_order", []string{"message", "time"})
		ov := cfgMap{}
		ov.set("log_configuration.no_color", true)
		run("proc-list-option", "log_configuration.fields_order", []cfgMap{skeleton(b2), {"version": "0.5", "processes": cfgMap{"p": ov}}})
	}
	for _, op := range c15ProjOpts {
		for _, bset := range []bool{false, true} {
			for _, oset := range []bool{false, true} {
				b := skeleton(baseProc())
				over := cfgMap{"version": "0.5"}
				if bset {
					b.set(op.path, op.v1)
				}
				if oset {
					over.set(op.path, op.v2)
				}
				run("project-option", op.path, []cfgMap{b, over})
			}
		}
	}
	// siblings inside one block: the earlier file sets one key of the block, the later file another key of the
	// same block only - the earlier key survives (a block is merged key by key, not replaced)
	block := func(path string) string {
		if i := strings.LastIndex(path, "."); i > 0 {
			return path[:i]
		}
		return ""
	}
	for _, a := range c15ProjOpts {
		for _, b2 := range c15ProjOpts {
			if a.path == b2.path || block(a.path) == "" || block(a.path) != block(b2.path) {
				continue
			}
			b := skeleton(baseProc())
			b.set(a.path, a.v1)
			over := cfgMap{"version": "0.5"}
			over.set(b2.path, b2.v2)
			run("project-option-sibling", a.path, []cfgMap{b, over})
		}
	}
	for _, a := range c15ProcOpts {
		for _, b2 := range c15ProcOpts {
			if a.path == b2.path || block(a.path) == "" || block(a.path) != block(b2.path) {
				continue
			}
			b, ov := baseProc(), cfgMap{}
			b.set(a.path, a.v1)
			ov.set(b2.path, b2.v2)
			run("proc-option-sibling", a.path, []cfgMap{skeleton(b), {"version": "0.5", "processes": cfgMap{"p": ov}}})
		}
	}
	// (b) environment entries
	vals := append([]string{"<absent>"}, c15EnvVals...)
	for _, scope := range []string{"process", "global"} {
		for _, bv := range vals {
			for _, ov := range vals {
				b := skeleton(baseProc())
				over := cfgMap{"version": "0.5"}
				benv := []string{"B=keepb"}
				if bv != "<absent>" {
					benv = append(benv, "A="+bv)
				}
				var oenv []string
				if ov != "<absent>" {
					oenv = []string{"A=" + ov}
				}
				if scope == "process" {
					b["processes"].(cfgMap)["p"].(cfgMap)["environment"] = benv
					op := cfgMap{"description": "over"}
					if oenv != nil {
						op["environment"] = oenv
					}
					over["processes"] = cfgMap{"p": op}
				} else {
					b["environment"] = benv
					if oenv != nil {
						over["environment"] = oenv
					} else {
						over["log_level"] = "info"
					}
				}
				cls := "plain"
				for _, v := range []string{bv, ov} {
					if strings.Contains(v, "=") {
						cls = "value-with-equals"
					} else if v == "" && cls == "plain" {
						cls = "empty-value"
					}
				}
				run("environment-"+scope, cls, []cfgMap{b, over})
			}
		}
	}
	// (c) depends_on and process presence
	for _, mode := range []string{"dep-both", "dep-override-only", "proc-override-only", "proc-base-only", "dep-changed"} {
		b := skeleton(baseProc())
		over := cfgMap{"version": "0.5"}
		switch mode {
		case "dep-both":
			b["processes"].(cfgMap)["r"] = cfgMap{"command": "r"}
			over["processes"] = cfgMap{"p": cfgMap{"depends_on": cfgMap{"r": cfgMap{"condition": "process_started"}}}}
		case "dep-override-only":
			bp := baseProc()
			delete(bp, "depends_on")
			b = skeleton(bp)
			over["processes"] = cfgMap{"p": cfgMap{"depends_on": cfgMap{"q": cfgMap{"condition": "process_started"}}}}
		case "dep-changed":
			over["processes"] = cfgMap{"p": cfgMap{"depends_on": cfgMap{"q": cfgMap{"condition": "process_completed_successfully"}}}}
		case "proc-override-only":
			over["processes"] = cfgMap{"n": cfgMap{"command": "new one", "environment": []string{"N=a=b"}}}
		case "proc-base-only":
			over["processes"] = cfgMap{"q": cfgMap{"description": "q over"}}
		}
		run("structure", mode, []cfgMap{b, over})
	}
	c15ExtendsChain(o, dir, &idx)
	// (d) extends
	for _, wd := range []string{"", "rel/dir", "/abs/dir"} {
		idx++
		if !o.mine(idx) {
			continue
		}
		bp := baseProc()
		if wd != "" {
			bp["working_dir"] = wd
		}
		b := skeleton(bp)
		over := cfgMap{"version": "0.5", "processes": cfgMap{"p": cfgMap{"description": "over"}, "n": cfgMap{"command": "n"}}}
		overExt := over.clone()
		overExt["extends"] = "../basedir/base.yaml"
		fm := map[string]string{"basedir/base.yaml": yamlOf(b), "sub/over-ext.yaml": yamlOf(overExt), "sub/over.yaml": yamlOf(over)}
		in := c15Input{Kind: "extends", Option: "working_dir=" + wd, Base: yamlOf(b), Override: yamlOf(overExt)}
		o.Evaluations++
		o.Distinct++
		ext, err := loadFiles(dir, fm, []string{"sub/over-ext.yaml"}, false)
		both, err2 := loadFiles(dir, fm, []string{"basedir/base.yaml", "sub/over.yaml"}, false)
		if err != nil || err2 != nil {
			o.violation("C15", "extends-differs:load-error", fmt.Sprintf("extends: %v / explicit: %v", err, err2), in)
			continue
		}
		// documented difference: empty / relative working dirs of the base's processes are resolved against the base file's directory
		baseDir := filepath.Join(dir, "basedir")
		for n, pc := range both.Processes {
			if _, inBase := b["processes"].(cfgMap)[n]; inBase {
				switch {
				case pc.WorkingDir == "":
					pc.WorkingDir = baseDir
				case !filepath.IsAbs(pc.WorkingDir):
					pc.WorkingDir = filepath.Join(baseDir, pc.WorkingDir)
				}
				both.Processes[n] = pc
			}
		}
		gv, wv := mergedView(ext), mergedView(both)
		if gv != wv {
			field := c15Diff(gv, wv)
			o.violation("C15", "extends-differs:"+field, fmt.Sprintf("extends gives %s\n explicit list gives %s", c15Excerpt(gv, field), c15Excerpt(wv, field)), in)
		}
	}
}

// three-level extends chain: top -> mid -> base must merge as base, mid, top
func c15ExtendsChain(o *E2Out, dir string, idx *int) {
	for _, optPath := range []string{"command", "shutdown.timeout_seconds", "environment", "depends_on", "project:log_level"} {
		*idx++
		if !o.mine(*idx) {
			continue
		}
		mk := func(level string) cfgMap {
			p := cfgMap{}
			switch optPath {
			case "command":
				p["command"] = "cmd from " + level
			case "shutdown.timeout_seconds":
				p.set("shutdown.timeout_seconds", map[string]int{"base": 11, "mid": 22}[level])
			case "environment":
				p["environment"] = []string{"LEVEL=" + level}
			case "depends_on":
				p["depends_on"] = cfgMap{"q": cfgMap{"condition": map[string]string{"base": "process_completed", "mid": "process_started"}[level]}}
			}
			f := cfgMap{"version": "0.5", "processes": cfgMap{"p": p}}
			if optPath == "project:log_level" {
				f["log_level"] = map[string]string{"base": "debug", "mid": "warn"}[level]
			}
			return f
		}
		base := mk("base")
		base["processes"].(cfgMap)["p"].(cfgMap)["description"] = "from base"
		if _, ok := base["processes"].(cfgMap)["p"].(cfgMap)["command"]; !ok {
			base["processes"].(cfgMap)["p"].(cfgMap)["command"] = "keep"
		}
		base["processes"].(cfgMap)["q"] = cfgMap{"command": "q"}
		mid := mk("mid")
		top := cfgMap{"version": "0.5", "processes": cfgMap{"p": cfgMap{"namespace": "topns"}}}
		// "flat": the three files side by side; "nested": each level one directory deeper than the file that
		// extends it - a relative extends: is resolved against the directory of the file that states it
		for _, layout := range []string{"flat", "nested"} {
			midE, topE := mid.clone(), top.clone()
			midE["extends"] = "base.yaml"
			topE["extends"] = "mid-ext.yaml"
			fm := map[string]string{"chain/base.yaml": yamlOf(base), "chain/mid-ext.yaml": yamlOf(midE), "chain/top-ext.yaml": yamlOf(topE),
				"chain/mid.yaml": yamlOf(mid), "chain/top.yaml": yamlOf(top)}
			topExt, explicit := "chain/top-ext.yaml", []string{"chain/base.yaml", "chain/mid.yaml", "chain/top.yaml"}
			if layout == "nested" {
				midE["extends"] = "deep/base.yaml"
				topE["extends"] = "sub/mid-ext.yaml"
				fm = map[string]string{"chain2/sub/deep/base.yaml": yamlOf(base), "chain2/sub/mid-ext.yaml": yamlOf(midE), "chain2/top-ext.yaml": yamlOf(topE),
					"chain2/sub/mid.yaml": yamlOf(mid), "chain2/top.yaml": yamlOf(top)}
				topExt, explicit = "chain2/top-ext.yaml", []string{"chain2/sub/deep/base.yaml", "chain2/sub/mid.yaml", "chain2/top.yaml"}
			}
			in := c15Input{Kind: "extends-chain:" + layout, Option: optPath, Base: yamlOf(base), Override: yamlOf(midE), Third: yamlOf(topE)}
			o.Evaluations++
			o.Distinct++
			ext, err := loadFiles(dir, fm, []string{topExt}, false)
			both, err2 := loadFiles(dir, fm, explicit, false)
			if err != nil || err2 != nil {
				o.violation("C15", "extends-differs:load-error", fmt.Sprintf("extends chain (%s): %v / explicit: %v", layout, err, err2), in)
				continue
			}
			chainDir := filepath.Join(dir, "chain")
			for n, pc := range both.Processes {
				// the default working directory follows the place of the files, which the nested layout varies on
				// purpose: it is taken out of the comparison there (part (d) compares it)
				if pc.WorkingDir == "" || layout == "nested" {
					pc.WorkingDir = chainDir
					both.Processes[n] = pc
				}
			}
			for n, pc := range ext.Processes { // processes defined only by the top file keep an empty dir
				if pc.WorkingDir == "" || layout == "nested" {
					pc.WorkingDir = chainDir
					ext.Processes[n] = pc
				}
			}
			gv, wv := mergedView(ext), mergedView(both)
			if gv != wv {
				field := c15Diff(gv, wv)
				o.violation("C15", "extends-differs:chain:"+field, fmt.Sprintf("three-level extends chain (%s) gives %s\n explicit list base,mid,top gives %s", layout, c15Excerpt(gv, field), c15Excerpt(wv, field)), in)
			}
		}
	}
}

func c15Mentions(m cfgMap, path string) bool {
	if path == "" {
		return true
	}
	cur := m
	if p, ok := m["processes"].(cfgMap); ok {
		if pp, ok := p["p"].(cfgMap); ok {
			cur2 := pp
			parts := strings.Split(path, ".")
			okAll := true
			for i, k := range parts {
				v, ok := cur2[k]
				if !ok {
					okAll = false
					break
				}
				if i < len(parts)-1 {
					cur2, ok = v.(cfgMap)
					if !ok {
						okAll = false
						break
					}
				}
			}
			if okAll {
				return true
			}
		}
	}
	parts := strings.Split(path, ".")
	for i, k := range parts {
		v, ok := cur[k]
		if !ok {
			return false
		}
		if i < len(parts)-1 {
			cur, ok = v.(cfgMap)
			if !ok {
				return false
			}
		}
	}
	return true
}

// c15Diff names the first differing field of two merged views.
func c15Diff(a, b string) string {
	var ma, mb map[string]json.RawMessage
	json.Unmarshal([]byte(a), &ma)
	json.Unmarshal([]byte(b), &mb)
	keys := make([]string, 0, len(ma))
	for k := range ma {
		keys = append(keys, k)
	}
	sort.Strings(keys)
	for _, k := range keys {
		if string(ma[k]) == string(mb[k]) {
			continue
		}
		if k != "Processes" {
			return k
		}
		var pa, pb map[string]map[string]json.RawMessage
		json.Unmarshal(ma[k], &pa)
		json.Unmarshal(mb[k], &pb)
		var names []string
		for n := range pa {
			names = append(names, n)
		}
		for n := range pb {
			if _, ok := pa[n]; !ok {
				return "process-set"
			}
		}
		sort.Strings(names)
		for _, n := range names {
			if _, ok := pb[n]; !ok {
				return "process-set"
			}
			var fk []string
			for f := range pa[n] {
				fk = append(fk, f)
			}
			sort.Strings(fk)
			for _, f := range fk {
				if string(pa[n][f]) != string(pb[n][f]) {
					return "process." + f
				}
			}
		}
	}
	return "?"
}

func c15Excerpt(view, field string) string {
	var m map[string]json.RawMessage
	json.Unmarshal([]byte(view), &m)
	if !strings.HasPrefix(field, "process.") {
		if field == "process-set" {
			var p map[string]json.RawMessage
			json.Unmarshal(m["Processes"], &p)
			var n []string
			for k := range p {
				n = append(n, k)
			}
			sort.Strings(n)
			return strings.Join(n, ",")
		}
		return string(m[field])
	}
	var p map[string]map[string]json.RawMessage
	json.Unmarshal(m["Processes"], &p)
	var out []string
	var names []string
	for n := range p {
		names = append(names, n)
	}
	sort.Strings(names)
	for _, n := range names {
		out = append(out, n+":"+string(p[n][field[8:]]))
	}
	return strings.Join(out, " ")
}
