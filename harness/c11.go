package vh

// C11 Output capture: every line a process writes reaches its log, once, in order.

import (
	"encoding/json"
	"fmt"
	"os"
	"path/filepath"
	"strings"
)

func init() { registry["C11"] = &propDef{e1: c11Scenarios} }

type c11Chunk struct {
	id   string
	text func(tag string) string // the bytes written; lines are tagged
}

var c11Alphabet = []c11Chunk{
	{"line", func(t string) string { return t + "\n" }},
	{"two", func(t string) string { return t + "a\n" + t + "b\n" }},
	{"empty", func(t string) string { return "\n" + t + "\n" }},
	{"long5k", func(t string) string { return t + strings.Repeat("z", 5000) + "\n" }},
	{"long70k", func(t string) string { return t + strings.Repeat("w", 70000) + "\n" }},
	{"special", func(t string) string { return t + " 50% done %d %s %% \t\"q\" \\ {json:1}\n" }},
	{"nonl", func(t string) string { return t + "-unterminated" }}, // last chunk only
}

// expected lines of a byte stream: split at \n, a final unterminated piece counts
func c11Lines(data string) []string {
	if data == "" {
		return nil
	}
	parts := strings.Split(data, "\n")
	if parts[len(parts)-1] == "" {
		parts = parts[:len(parts)-1]
	}
	return parts
}

func c11Scenarios(tier string) []*Scenario {
	var scs []*Scenario
	maxChunks := 2
	if tier == "thorough" {
		maxChunks = 3
	}
	// stdout scripts: sequences of chunk kinds, "nonl" only last
	var seqs [][]int
	var gen func(cur []int)
	gen = func(cur []int) {
		if len(cur) > 0 {
			seqs = append(seqs, append([]int(nil), cur...))
		}
		if len(cur) == maxChunks || (len(cur) > 0 && c11Alphabet[cur[len(cur)-1]].id == "nonl") {
			return
		}
		for i := range c11Alphabet {
			if tier != "thorough" && len(cur) >= 1 && (c11Alphabet[i].id == "long70k" || c11Alphabet[cur[0]].id == "long70k") {
				continue
			}
			gen(append(cur, i))
		}
	}
	gen(nil)
	// "proc-ready": a ready_log_line that the first tagged line matches - the line that makes the process ready
	// is a line of its output like any other
	loggers := []string{"none", "proc", "unified", "proc-flush", "proc-num", "proc-ready"}
	for _, seq := range seqs {
		for _, errMode := range []string{"none", "line", "nonl"} {
			for _, restarts := range []int{0, 1} {
				for li, lg := range loggers {
					// logger variants and restarts only on a subset in quick mode
					if tier != "thorough" {
						if (lg != "none" || restarts == 1) && len(seq) > 1 {
							continue
						}
						if errMode == "nonl" && len(seq) > 1 {
							continue
						}
						if lg != "none" && restarts == 1 && li > 1 && lg != "proc-ready" {
							continue
						}
					}
					if lg == "proc-ready" && (len(seq) > 2 || errMode == "nonl") {
						continue
					}
					if lg == "proc-num" && (len(seq) > 1 || errMode != "none") {
						continue // the documented {PC_REPLICA_NUM} placeholder in the file name of a single replica
					}
					scs = append(scs, c11Scenario(seq, errMode, restarts, lg))
				}
			}
		}
	}
	// a log shorter than the output: the in-memory log keeps the most recent lines (at least log_length
	// of them, in order, the very last line included), the log file keeps everything
	for _, total := range []int{25, 121, 122, 230} {
		for _, last := range []string{"line", "nonl"} {
			total, last := total, last
			const length = 20
			var sb strings.Builder
			var all []string
			for i := 0; i < total; i++ {
				fmt.Fprintf(&sb, "o0.%d\n", i)
				all = append(all, fmt.Sprintf("o0.%d", i))
			}
			tail := "o0.end\n"
			if last == "nonl" {
				tail = "o0.end-unterminated"
			}
			all = append(all, strings.TrimSuffix(tail, "\n"))
			sc := &Scenario{
				ID:         fmt.Sprintf("c11-wrap-%d-%s", total, last),
				YAML:       projectYAML([]string{fmt.Sprintf("log_length: %d", length)}, PC{Name: "a", Lines: []string{"log_location: \"@DIR@/a.log\""}}),
				Procs:      map[string]*ProcScript{"a": {Launches: [][]Action{{Out(sb.String()), Out(tail), Exit(0)}}}},
				K:          0,
				TickBudget: 1,
			}
			if total < 100 {
				sc.K = 1
			}
			sc.Check = func(w *World) []Violation {
				if w.Outcome != "completed" {
					return []Violation{viol("C11", "not-completed:"+w.Outcome, "execution did not complete (outcome %s, blocked %v)", w.Outcome, w.Blocked)}
				}
				var vs []Violation
				mem, err := w.Runner.GetProcessLog("a", 100000, 0)
				if err != nil {
					return []Violation{viol("C11", "log-error", "GetProcessLog: %v", err)}
				}
				min := length
				if len(all) < min {
					min = len(all)
				}
				switch {
				case len(mem) < min:
					vs = append(vs, viol("C11", "wrap:too-short", "log_length %d, %d lines written: the in-memory log holds %d", length, len(all), len(mem)))
				case len(mem) > len(all) || strings.Join(mem, "\n") != strings.Join(all[len(all)-len(mem):], "\n"):
					lastGot := ""
					if len(mem) > 0 {
						lastGot = mem[len(mem)-1]
					}
					vs = append(vs, viol("C11", "wrap:not-the-most-recent", "log_length %d, %d lines written: the in-memory log (%d lines, last %q) is not the most recent lines in order (last written %q)", length, len(all), len(mem), short40(lastGot), all[len(all)-1]))
				}
				data, err := os.ReadFile(filepath.Join(w.dir, "a.log"))
				if err != nil {
					return append(vs, viol("C11", "file-missing:proc", "log file: %v", err))
				}
				n := 0
				for _, line := range strings.Split(string(data), "\n") {
					var rec struct {
						Message string `json:"message"`
					}
					if json.Unmarshal([]byte(line), &rec) == nil && tagged(rec.Message) {
						if n < len(all) && rec.Message == all[n] {
							n++
						}
					}
				}
				if n != len(all) {
					vs = append(vs, viol("C11", "lost:wrap:file:proc", "the log file holds %d of the %d lines written, in order", n, len(all)))
				}
				return vs
			}
			scs = append(scs, sc)
		}
	}
	// the process is renamed while it runs (scaling 1 -> 2 turns a into a-0, 2 -> 1 back): what it wrote before is
	// still in its in-memory log under the new name, followed by what it writes afterwards
	for _, dir := range []string{"up", "down"} {
		dir := dir
		init, to, before, after := 0, 2, "a", "a-0"
		if dir == "down" {
			init, to, before, after = 2, 1, "a-0", "a"
		}
		pc := PC{Name: "a"}
		if init > 0 {
			pc.Lines = append(pc.Lines, fmt.Sprintf("replicas: %d", init))
		}
		scaled := func(w *World) bool { return len(w.apiRes) > 0 && w.apiRes[0].Done }
		sc := &Scenario{
			ID:   "c11-rename-" + dir,
			YAML: projectYAML([]string{"log_length: 100"}, pc),
			Procs: map[string]*ProcScript{"a": {Launches: [][]Action{{Out("o0.0\n"), Out("o0.1\n"), Out("o0.2\n"), Exit(0)}},
				Hold: func(w *World, pc int) bool { return pc >= 2 && !scaled(w) }}},
			K: 1, TickBudget: 1,
		}
		wrote := func(w *World) bool {
			for _, f := range w.procs {
				if f.Num == 0 && f.pc >= 2 {
					return true
				}
			}
			return false
		}
		sc.API = [][]APICall{{{Op: "scale", Name: before, N: to, When: wrote}}}
		sc.Check = func(w *World) []Violation {
			if w.Outcome != "completed" || !scaled(w) || w.apiRes[0].Err != nil {
				return nil
			}
			log, err := w.Runner.GetProcessLog(after, 1000, 0)
			if err != nil {
				return []Violation{viol("C11", "log-error", "GetProcessLog(%s): %v", after, err)}
			}
			if strings.Join(log, ",") != "o0.0,o0.1,o0.2" {
				return []Violation{viol("C11", "lost:renamed", "replica 0 wrote o0.0 o0.1 as %s, was renamed to %s by scaling and wrote o0.2: its in-memory log holds %v", before, after, log)}
			}
			return nil
		}
		scs = append(scs, sc)
	}
	return scs
}

func c11Scenario(seq []int, errMode string, restarts int, lg string) *Scenario {
	var ids []string
	for _, i := range seq {
		ids = append(ids, c11Alphabet[i].id)
	}
	pc := PC{Name: "a"}
	var global []string
	switch lg {
	case "proc":
		pc.Lines = append(pc.Lines, "log_location: \"@DIR@/a.log\"")
	case "proc-flush":
		pc.Lines = append(pc.Lines, "log_location: \"@DIR@/a.log\"", "log_configuration:", "  flush_each_line: true")
	case "proc-num":
		pc.Lines = append(pc.Lines, "log_location: \"@DIR@/a.{PC_REPLICA_NUM}.log\"")
	case "proc-ready":
		pc.Lines = append(pc.Lines, "log_location: \"@DIR@/a.log\"", "ready_log_line: \"o\"")
	case "unified":
		global = append(global, "log_location: \"@DIR@/all.log\"")
	}
	if restarts > 0 {
		pc.Restart = "always"
		pc.Max = restarts
	}
	var launches [][]Action
	var wantOut, wantErr []string
	for l := 0; l <= restarts; l++ {
		var script []Action
		outData, errData := "", ""
		for ci, i := range seq {
			tag := fmt.Sprintf("o%d.%d", l, ci)
			txt := c11Alphabet[i].text(tag)
			script = append(script, Out(txt))
			outData += txt
		}
		switch errMode {
		case "line":
			txt := fmt.Sprintf("e%d.0\n", l)
			script = append(script, Errw(txt))
			errData += txt
		case "nonl":
			txt := fmt.Sprintf("e%d.0-unterminated", l)
			script = append(script, Errw(txt))
			errData += txt
		}
		code := 1
		if l == restarts {
			code = 0
		}
		script = append(script, Exit(code))
		launches = append(launches, script)
		wantOut = append(wantOut, c11Lines(outData)...)
		wantErr = append(wantErr, c11Lines(errData)...)
	}
	if restarts > 0 {
		pc.Restart = "on_failure"
	}
	sc := &Scenario{
		ID:         fmt.Sprintf("c11-%s-err[%s]-r%d-%s", strings.Join(ids, "+"), errMode, restarts, lg),
		YAML:       projectYAML(append(global, "log_length: 5000"), pc),
		Procs:      map[string]*ProcScript{"a": {Launches: launches}},
		K:          1,
		TickBudget: 1 + restarts,
	}
	if lg == "proc" || lg == "proc-flush" || lg == "proc-ready" {
		// "in that file once the process has ended": what the file holds at the moment the process is reported
		// ended (somebody may read it right then) is remembered and compared with its final content
		sc.OnState = func(w *World, name, status string) {
			if name == "a" && (status == "Completed" || status == "Error") {
				data, _ := os.ReadFile(filepath.Join(w.dir, "a.log"))
				w.mu.Lock()
				w.Extra["c11-at-end"] = string(data)
				w.Extra["c11-at-end-pos"] = len(w.trace)
				w.mu.Unlock()
			}
		}
	}
	sc.Check = func(w *World) []Violation {
		vs := c11Check(w, wantOut, wantErr, lg, ids)
		if snap, ok := w.Extra["c11-at-end"].(string); ok && (w.Outcome == "completed" || w.Outcome == "stuck") {
			pos := w.Extra["c11-at-end-pos"].(int)
			later := findEvent(w.pre(), pos, func(e Event) bool { return e.Kind == "launch" }) >= 0
			if data, err := os.ReadFile(filepath.Join(w.dir, "a.log")); err == nil && !later && string(data) != snap {
				vs = append(vs, viol("C11", "file-late:"+lg, "when the process was reported ended its log file held %d bytes, in the end it holds %d: the last lines reached the file after the end of the process", len(snap), len(data)))
			}
		}
		return vs
	}
	return sc
}

func c11Class(line string) string {
	switch {
	case strings.Contains(line, "unterminated"):
		return "unterminated"
	case len(line) > 60000:
		return "long70k"
	case len(line) > 4000:
		return "long5k"
	case line == "":
		return "empty"
	}
	return "plain"
}

func tagged(l string) bool {
	return len(l) >= 2 && (l[0] == 'o' || l[0] == 'e') && l[1] >= '0' && l[1] <= '9'
}

func c11Compare(got, want []string, where string) []Violation {
	var vs []Violation
	// empty lines carry no tag: compare tagged lines exactly, count empties
	var g, wn []string
	ge, we := 0, 0
	for _, l := range got {
		if l == "" {
			ge++
		} else {
			g = append(g, l)
		}
	}
	for _, l := range want {
		if l == "" {
			we++
		} else {
			wn = append(wn, l)
		}
	}
	seen := map[string]int{}
	for _, l := range g {
		seen[l]++
	}
	for _, l := range wn {
		if seen[l] == 0 {
			vs = append(vs, viol("C11", "lost:"+c11Class(l)+":"+where, "%s: line %q was written but is not in the log", where, short40(l)))
			return vs
		}
		if seen[l] > 1 {
			vs = append(vs, viol("C11", "duplicated:"+where, "%s: line %q appears %d times", where, short40(l), seen[l]))
			return vs
		}
	}
	if len(g) != len(wn) {
		vs = append(vs, viol("C11", "extra:"+where, "%s: %d tagged lines in the log, %d written", where, len(g), len(wn)))
		return vs
	}
	for i := range g {
		if g[i] != wn[i] {
			vs = append(vs, viol("C11", "reordered:"+where, "%s: position %d holds %q, want %q", where, i, short40(g[i]), short40(wn[i])))
			return vs
		}
	}
	if ge < we {
		vs = append(vs, viol("C11", "lost:empty:"+where, "%s: %d empty lines written, %d in the log", where, we, ge))
	}
	return vs
}

func short40(s string) string {
	if len(s) > 40 {
		return s[:40] + "…"
	}
	return s
}

func c11Check(w *World, wantOut, wantErr []string, lg string, ids []string) []Violation {
	var vs []Violation
	if w.Outcome != "completed" {
		return []Violation{viol("C11", "not-completed:"+w.Outcome, "execution did not complete (outcome %s, blocked %v)", w.Outcome, w.Blocked)}
	}
	log, err := w.Runner.GetProcessLog("a", 100000, 0)
	if err != nil {
		return []Violation{viol("C11", "log-error", "GetProcessLog: %v", err)}
	}
	var gotOut, gotErr []string
	for _, l := range log {
		switch {
		case strings.HasPrefix(l, "o"):
			gotOut = append(gotOut, l)
		case strings.HasPrefix(l, "e"):
			gotErr = append(gotErr, l)
		case l == "":
			gotOut = append(gotOut, l) // only stdout scripts contain empty lines
		}
	}
	var wo []string
	wo = append(wo, wantOut...)
	vs = append(vs, c11Compare(gotOut, wo, "memory:stdout")...)
	vs = append(vs, c11Compare(gotErr, wantErr, "memory:stderr")...)
	if lg != "none" {
		fn := filepath.Join(w.dir, "a.log")
		if lg == "unified" {
			fn = filepath.Join(w.dir, "all.log")
		}
		if lg == "proc-num" {
			fn = filepath.Join(w.dir, "a.0.log") // replica number 0 of a single replica
		}
		data, err := os.ReadFile(fn)
		if err != nil {
			vs = append(vs, viol("C11", "file-missing:"+lg, "log file: %v", err))
			return vs
		}
		if os.Getenv("VH_DBG") != "" {
			fmt.Fprintf(os.Stderr, "DBG file %s: %q\n", fn, string(data))
		}
		var fOut, fErr []string
		for _, line := range strings.Split(strings.TrimSuffix(string(data), "\n"), "\n") {
			if line == "" {
				continue
			}
			var rec struct {
				Level   string `json:"level"`
				Message string `json:"message"`
			}
			if err := json.Unmarshal([]byte(line), &rec); err != nil {
				vs = append(vs, viol("C11", "file-mismatch:unparsable:"+lg, "log file line is not JSON: %q", short40(line)))
				return vs
			}
			if rec.Level == "error" {
				fErr = append(fErr, rec.Message)
			} else if tagged(rec.Message) || rec.Message == "" {
				fOut = append(fOut, rec.Message)
			}
		}
		// zerolog omits the message field for empty messages: do not compare empty lines in files
		strip := func(l []string) []string {
			var o []string
			for _, x := range l {
				if x != "" {
					o = append(o, x)
				}
			}
			return o
		}
		vs = append(vs, c11Compare(strip(fOut), strip(wantOut), "file:"+lg+":stdout")...)
		vs = append(vs, c11Compare(strip(fErr), strip(wantErr), "file:"+lg+":stderr")...)
		// an empty line is a record without a message: there are as many of those as empty lines were written
		if ge, we := len(fOut)-len(strip(fOut)), len(wantOut)-len(strip(wantOut)); ge < we {
			vs = append(vs, viol("C11", "lost:empty:file:"+lg+":stdout", "%d empty lines written to stdout, %d records without a message in the log file", we, ge))
		}
	}
	return vs
}
