package vh

// C07 Run plan: cycles/dangling deps rejected; topological order; selection = closure.

import (
	"fmt"
	"os"
	"path/filepath"
	"sort"
	"strings"

	"github.com/f1bonacc1/process-compose/src/admitter"
	"github.com/f1bonacc1/process-compose/src/app"
	"github.com/f1bonacc1/process-compose/src/loader"
	"github.com/f1bonacc1/process-compose/src/types"
)

func init() { registry["C07"] = &propDef{e1: c07Scenarios, e2: c07E2} }

type c07Input struct {
	Disabled int      `json:"disabled_mask"`   // bit i: process i is disabled: true
	FG       int      `json:"foreground_mask"` // bit i: process i is is_foreground: true
	NS       int      `json:"namespace_mask"`  // bit i: process i is in namespace "sel" (the one selected), else in "other"
	UseNS    bool     `json:"namespace_selection"`
	N        int      `json:"n"`
	Edges    [][2]int `json:"edges"` // [from, to]: from depends on to (to == N means the undefined name)
	Strict   bool     `json:"strict"`
	Replicas int      `json:"replicas_of_p0"`
	Mode     string   `json:"map_order"`
}

func c07Name(i int) string { return fmt.Sprintf("p%d", i) }

func (in c07Input) yaml() string {
	var b strings.Builder
	b.WriteString("version: \"0.5\"\n")
	if in.Strict {
		b.WriteString("is_strict: true\n")
	}
	b.WriteString("processes:\n")
	for i := 0; i < in.N; i++ {
		fmt.Fprintf(&b, "  %s:\n    command: \"true\"\n", c07Name(i))
		if i == 0 && in.Replicas > 1 {
			fmt.Fprintf(&b, "    replicas: %d\n", in.Replicas)
		}
		if in.Disabled>>i&1 == 1 {
			b.WriteString("    disabled: true\n")
		}
		if in.FG>>i&1 == 1 {
			b.WriteString("    is_foreground: true\n")
		}
		if in.UseNS {
			if in.NS>>i&1 == 1 {
				b.WriteString("    namespace: sel\n")
			} else {
				b.WriteString("    namespace: other\n")
			}
		}
		first := true
		for _, e := range in.Edges {
			if e[0] != i {
				continue
			}
			if first {
				b.WriteString("    depends_on:\n")
				first = false
			}
			to := "zz"
			if e[1] < in.N {
				to = c07Name(e[1])
			}
			fmt.Fprintf(&b, "      %s:\n        condition: process_completed\n", to)
		}
	}
	return b.String()
}

func (in c07Input) adj() [][]bool {
	a := make([][]bool, in.N)
	for i := range a {
		a[i] = make([]bool, in.N)
	}
	for _, e := range in.Edges {
		if e[1] < in.N {
			a[e[0]][e[1]] = true
		}
	}
	return a
}

// closure by Warshall on a bit matrix (reference model).
func closure(a [][]bool) [][]bool {
	n := len(a)
	c := make([][]bool, n)
	for i := range c {
		c[i] = append([]bool(nil), a[i]...)
	}
	for k := 0; k < n; k++ {
		for i := 0; i < n; i++ {
			for j := 0; j < n; j++ {
				if c[i][k] && c[k][j] {
					c[i][j] = true
				}
			}
		}
	}
	return c
}

func (in c07Input) dangling() bool {
	for _, e := range in.Edges {
		if e[1] >= in.N {
			return true
		}
	}
	return false
}

func (in c07Input) cyclic() bool {
	c := closure(in.adj())
	for i := range c {
		if c[i][i] {
			return true
		}
	}
	return false
}

func c07Relations(n int, selfLoops bool) [][][2]int {
	var pairs [][2]int
	for i := 0; i < n; i++ {
		for j := 0; j < n; j++ {
			if i != j || selfLoops {
				pairs = append(pairs, [2]int{i, j})
			}
		}
	}
	var out [][][2]int
	for bits := 0; bits < 1<<len(pairs); bits++ {
		var es [][2]int
		for k, p := range pairs {
			if bits>>k&1 == 1 {
				es = append(es, p)
			}
		}
		out = append(out, es)
	}
	return out
}

func c07E2(tier string, o *E2Out) {
	o.Rule = "E2: every dependency relation on n<=3 names with self-loops (2^9) and on n=4 (quick: without self-loops 2^12; thorough: with self-loops 2^16, n=5 without self-loops sampled by shard budget), each also with one edge to an undefined name, strict and non-strict, replicas {1,2} on p0 for n<=3; map-iteration orders: sorted, all-reversed, all-rotated, and every single-site permutation for n<=3. Oracle: Load fails iff the reference (Warshall closure) finds a cycle or a dangling name; dependency order lists every process once after its dependencies; for every requested subset x no-deps the enabled set is the subset plus its closure. Non-trivial = relation with at least one edge."
	o.Exhaustive = true
	dir, _ := os.MkdirTemp("", "vh-c07-")
	defer os.RemoveAll(dir)
	idx := 0
	type cfg struct {
		n     int
		loops bool
		full  bool
	}
	cfgs := []cfg{{1, true, true}, {2, true, true}, {3, true, true}, {4, false, false}}
	if tier == "thorough" {
		cfgs = []cfg{{1, true, true}, {2, true, true}, {3, true, true}, {4, true, false}}
	}
	for _, c := range cfgs {
		for _, rel := range c07Relations(c.n, c.loops) {
			idx++
			if !o.mine(idx) {
				continue
			}
			if o.expired() {
				o.Exhaustive = false
				return
			}
			for _, dang := range []int{-1, 0, c.n - 1} {
				if dang >= 0 && (c.n > 1 && dang == 0 && c.n-1 == 0) {
					continue
				}
				if dang > 0 && dang == 0 {
					continue
				}
				edges := rel
				if dang >= 0 {
					edges = append(append([][2]int(nil), rel...), [2]int{dang, c.n})
				}
				for _, strict := range []bool{false, true} {
					reps := []int{1}
					if c.n <= 3 && dang < 0 {
						reps = []int{1, 2}
					}
					for _, rep := range reps {
						in := c07Input{N: c.n, Edges: edges, Strict: strict, Replicas: rep}
						c07One(o, dir, in, c.full)
					}
					// disabled processes do not change what is a valid relation: cycles and dangling
					// names are rejected whoever owns the edge (n <= 3, every disabled marking)
					if c.n <= 3 && len(edges) > 0 && len(edges) <= 3 {
						for mask := 1; mask < 1<<c.n; mask++ {
							in := c07Input{N: c.n, Edges: edges, Strict: strict, Replicas: 1, Disabled: mask}
							c07Disabled(o, dir, in)
						}
						// every marking normal / disabled / foreground (acyclic, no dangling name, non-strict)
						if !strict && dang < 0 {
							in0 := c07Input{N: c.n, Edges: edges}
							if !in0.cyclic() {
								pow := 1
								for i := 0; i < c.n; i++ {
									pow *= 3
								}
								for m := 1; m < pow; m++ {
									in := c07Input{N: c.n, Edges: edges, Replicas: 1}
									for i, x := 0, m; i < c.n; i, x = i+1, x/3 {
										switch x % 3 {
										case 1:
											in.Disabled |= 1 << i
										case 2:
											in.FG |= 1 << i
										}
									}
									c07Marked(o, dir, in)
								}
							}
						}
						// namespace markings with the namespace "sel" selected (n <= 3, every marking)
						for mask := 0; mask < 1<<c.n; mask++ {
							c07Namespaces(o, dir, c07Input{N: c.n, Edges: edges, Strict: strict, Replicas: 1, NS: mask, UseNS: true})
							// the same with two replicas of p0 (nothing may depend on a replicated process: recorded finding)
							dependedOn := false
							for _, e := range edges {
								if e[1] == 0 {
									dependedOn = true
								}
							}
							if !dependedOn && dang < 0 {
								c07Namespaces(o, dir, c07Input{N: c.n, Edges: edges, Strict: strict, Replicas: 2, NS: mask, UseNS: true})
							}
						}
					}
				}
				if c.n == 1 && dang == 0 {
					break
				}
			}
		}
	}
}

// c07Marked: selection and run order when some processes are disabled or foreground (deferred). The closure
// of a request follows every dependency edge, through deferred processes too; everything in it is enabled
// except foreground processes, everything else is listed as disabled. The run order lists every process that
// is to run once, after all its transitive dependencies that are to run.
func c07Marked(o *E2Out, dir string, in c07Input) {
	files := map[string]string{"pc.yaml": in.yaml()}
	prj, err := loadFiles(dir, files, []string{"pc.yaml"}, in.Strict)
	o.Evaluations++
	if err != nil {
		return // a disabled dependency of an enabled process is refused in some modes: C07 says nothing about it
	}
	cl := closure(in.adj())
	deferred := func(i int) bool { return in.Disabled>>i&1 == 1 || in.FG>>i&1 == 1 }
	order, oerr := prj.GetDependenciesOrderNames()
	if oerr != nil {
		o.violation("C07", "order:error", fmt.Sprintf("GetDependenciesOrderNames fails on an accepted project: %v", oerr), in)
		return
	}
	pos := map[string]int{}
	for i, n := range order {
		if _, dup := pos[n]; dup {
			o.violation("C07", "order:duplicate", fmt.Sprintf("dependency order %v lists %s twice", order, n), in)
		}
		pos[n] = i
	}
	for i := 0; i < in.N; i++ {
		pi, ok := pos[c07Name(i)]
		if ok == deferred(i) {
			o.violation("C07", "order:deferred", fmt.Sprintf("dependency order %v: %s listed=%v, deferred=%v", order, c07Name(i), ok, deferred(i)), in)
			continue
		}
		for j := 0; ok && j < in.N; j++ {
			if pj, okj := pos[c07Name(j)]; okj && cl[i][j] && i != j && pj > pi {
				o.violation("C07", "order:before-dependency", fmt.Sprintf("dependency order %v lists %s before its (transitive) dependency %s", order, c07Name(i), c07Name(j)), in)
			}
		}
	}
	for sub := 1; sub < 1<<in.N; sub++ {
		for _, nodeps := range []bool{false, true} {
			p2, err := loadFiles(dir, files, []string{"pc.yaml"}, in.Strict)
			if err != nil {
				return
			}
			var req []string
			want := map[string]bool{}
			for i := 0; i < in.N; i++ {
				if sub>>i&1 == 0 {
					continue
				}
				req = append(req, c07Name(i))
				want[c07Name(i)] = true
				for j := 0; !nodeps && j < in.N; j++ {
					if cl[i][j] {
						want[c07Name(j)] = true
					}
				}
			}
			if !nodeps {
				for i := 0; i < in.N; i++ {
					if in.FG>>i&1 == 1 {
						delete(want, c07Name(i)) // a foreground process is never started automatically
					}
				}
			}
			o.Evaluations++
			po := &app.ProjectOpts{}
			po.WithProject(p2).WithProcessesToRun(req).WithNoDeps(nodeps)
			if _, err := app.NewProjectRunner(po); err != nil {
				o.violation("C07", "selection:error", fmt.Sprintf("NewProjectRunner(%v, nodeps=%v): %v", req, nodeps, err), in)
				continue
			}
			var extra, missing []string
			for name, pc := range p2.Processes {
				if !pc.Disabled && !want[pc.Name] {
					extra = append(extra, name)
				}
				if pc.Disabled && want[pc.Name] {
					missing = append(missing, name)
				}
			}
			sort.Strings(extra)
			sort.Strings(missing)
			if len(extra) > 0 {
				o.violation("C07", "selection:extra:marked", fmt.Sprintf("requested %v (no-deps=%v): %v enabled but neither requested nor a dependency", req, nodeps, extra), in)
			}
			if len(missing) > 0 {
				o.violation("C07", "selection:missing:marked", fmt.Sprintf("requested %v (no-deps=%v): %v disabled although requested or a transitive dependency", req, nodeps, missing), in)
			}
		}
	}
}

// c07Namespaces: loading with a namespace selection (-n sel). What is a valid relation does not depend on the
// selection; an accepted project holds exactly the processes of the selected namespace.
func c07Namespaces(o *E2Out, dir string, in c07Input) {
	fn := filepath.Join(dir, "pc.yaml")
	if err := os.WriteFile(fn, []byte(in.yaml()), 0o644); err != nil {
		return
	}
	// a second file that mentions every process for an unrelated reason (an environment variable): namespaces
	// and replica counts are those of the first file
	var ov strings.Builder
	ov.WriteString("version: \"0.5\"\nprocesses:\n")
	for i := 0; i < in.N; i++ {
		fmt.Fprintf(&ov, "  %s:\n    environment:\n      - 'OV=1'\n", c07Name(i))
	}
	fn2 := filepath.Join(dir, "pc.override.yaml")
	if err := os.WriteFile(fn2, []byte(ov.String()), 0o644); err != nil {
		return
	}
	o.Evaluations++
	opts := &loader.LoaderOptions{FileNames: []string{fn, fn2}, IsInternalLoader: true}
	opts.DisableDotenv(true)
	opts.AddAdmitter(&admitter.NamespaceAdmitter{EnabledNamespaces: []string{"sel"}})
	var prj *types.Project
	var err error
	if pan := safely(func() { prj, err = loader.Load(opts) }); pan != "" {
		o.violation("C07", "load-panic:namespaces", "Load with a namespace selection panics: "+pan, in)
		return
	}
	wantFail := in.cyclic() || in.dangling()
	switch {
	case wantFail && err == nil && in.cyclic():
		o.violation("C07", "accepts-cycle:namespaces", "Load with -n sel accepts a cyclic dependency relation", in)
	case wantFail && err == nil:
		o.violation("C07", "accepts-dangling:namespaces", "Load with -n sel accepts a dependency on an undefined process", in)
	case !wantFail && err != nil:
		o.violation("C07", "rejects-acyclic:namespaces", fmt.Sprintf("Load with -n sel rejects a valid configuration: %v", err), in)
	case err == nil:
		var got, want []string
		for n := range prj.Processes {
			got = append(got, n)
		}
		for i := 0; i < in.N; i++ {
			if in.NS>>i&1 == 1 {
				if i == 0 && in.Replicas > 1 {
					for r := 0; r < in.Replicas; r++ {
						want = append(want, refReplicaName(c07Name(0), in.Replicas, r))
					}
					continue
				}
				want = append(want, c07Name(i))
			}
		}
		sort.Strings(got)
		sort.Strings(want)
		if strings.Join(got, ",") != strings.Join(want, ",") {
			o.violation("C07", "namespaces:set", fmt.Sprintf("Load with -n sel holds %v, the selected namespace has %v", got, want), in)
		}
	}
}

// c07Disabled: accept/reject only (a disabled dependency of an enabled process is an error in strict mode by design).
func c07Disabled(o *E2Out, dir string, in c07Input) {
	files := map[string]string{"pc.yaml": in.yaml()}
	o.Evaluations++
	_, err := loadFiles(dir, files, []string{"pc.yaml"}, in.Strict)
	wantFail := in.cyclic() || in.dangling()
	if wantFail && err == nil {
		sig := "accepts-dangling:disabled-owner"
		if in.cyclic() {
			sig = "accepts-cycle:disabled-member"
		}
		o.violation("C07", sig, "Load accepts an invalid dependency relation when processes are disabled", in)
	}
}

func c07One(o *E2Out, dir string, in c07Input, full bool) {
	files := map[string]string{"pc.yaml": in.yaml()}
	var base *permRecorder
	eval := func(m permMode) {
		in.Mode = m.String()
		o.Evaluations++
		if len(in.Edges) > 0 && m.Kind == "default" {
			o.Distinct++ // distinct inputs, not evaluations: the map-order variants of one input count once
		}
		var prj *types.Project
		var err error
		var pan string
		rec := withPerm(m, func() {
			pan = safely(func() { prj, err = loadFiles(dir, files, []string{"pc.yaml"}, in.Strict) })
		})
		if m.Kind == "default" {
			base = rec
		}
		if pan != "" {
			o.violation("C07", "load-panic", "Load panics: "+pan, in)
			return
		}
		wantFail := in.cyclic() || in.dangling()
		switch {
		case wantFail && err == nil && in.cyclic():
			o.violation("C07", "accepts-cycle", fmt.Sprintf("Load accepts a cyclic dependency relation (map order %s)", m), in)
			return
		case wantFail && err == nil:
			o.violation("C07", "accepts-dangling", fmt.Sprintf("Load accepts a dependency on an undefined process (map order %s)", m), in)
			return
		case !wantFail && err != nil:
			sig := "rejects-acyclic"
			if in.Replicas > 1 {
				sig = "rejects-acyclic:replicated-dependency"
			}
			o.violation("C07", sig, fmt.Sprintf("Load rejects a valid acyclic configuration: %v (map order %s)", err, m), in)
			return
		}
		if err != nil {
			return
		}
		if len(in.Edges) == 2 && in.N == 3 {
			o.sample(fmt.Sprintf("%+v -> loaded", in))
		}
		// dependency order
		order, oerr := prj.GetDependenciesOrderNames()
		if oerr != nil {
			o.violation("C07", "order:error", fmt.Sprintf("GetDependenciesOrderNames fails on an accepted project: %v", oerr), in)
			return
		}
		pos := map[string]int{}
		for i, n := range order {
			if _, dup := pos[n]; dup {
				o.violation("C07", "order:duplicate", fmt.Sprintf("dependency order %v lists %s twice", order, n), in)
			}
			pos[n] = i
		}
		for name, pc := range prj.Processes {
			if _, ok := pos[name]; !ok {
				o.violation("C07", "order:missing", fmt.Sprintf("dependency order %v misses %s", order, name), in)
				continue
			}
			for d := range pc.DependsOn {
				// a dependency names the configured (base) name: all its replicas must come first
				for rn, rc := range prj.Processes {
					if rc.Name == d && pos[rn] > pos[name] {
						o.violation("C07", "order:before-dependency", fmt.Sprintf("dependency order %v lists %s before its dependency %s", order, name, rn), in)
					}
				}
			}
		}
		if m.Kind != "default" {
			return
		}
		// selection: every subset of requested names x no-deps (fresh load each time)
		cl := closure(in.adj())
		for sub := 1; sub < 1<<in.N; sub++ {
			for _, nd := range []int{0, 1, 2, 3} {
				// (the names are requested in ascending and, when there are several, in descending order: the
				// result must not depend on where a name stands in the request)
				nodeps, rev := nd&1 == 1, nd&2 != 0
				if rev && (bitsSet(sub) < 2 || (in.Replicas < 2 && in.N > 3)) {
					continue
				}
				p2, err := loadFiles(dir, files, []string{"pc.yaml"}, in.Strict)
				if err != nil {
					return
				}
				var req []string
				want := map[string]bool{}
				for ii := 0; ii < in.N; ii++ {
					i := ii
					if rev {
						i = in.N - 1 - ii
					}
					if sub>>i&1 == 1 {
						req = append(req, c07Name(i))
						want[c07Name(i)] = true
						if !nodeps {
							for j := 0; j < in.N; j++ {
								if cl[i][j] {
									want[c07Name(j)] = true
								}
							}
						}
					}
				}
				o.Evaluations++
				po := &app.ProjectOpts{}
				po.WithProject(p2).WithProcessesToRun(req).WithNoDeps(nodeps)
				if _, err := app.NewProjectRunner(po); err != nil {
					o.violation("C07", "selection:error", fmt.Sprintf("NewProjectRunner(%v, nodeps=%v): %v", req, nodeps, err), in)
					continue
				}
				var extra, missing []string
				for name, pc := range p2.Processes {
					// requests and dependencies name configured processes: every replica follows its process
					if !pc.Disabled && !want[pc.Name] {
						extra = append(extra, name)
					}
					if pc.Disabled && want[pc.Name] {
						missing = append(missing, name)
					}
				}
				sort.Strings(extra)
				sort.Strings(missing)
				if len(extra) > 0 {
					o.violation("C07", "selection:extra", fmt.Sprintf("requested %v (no-deps=%v): %v enabled but neither requested nor a dependency", req, nodeps, extra), in)
				}
				if len(missing) > 0 {
					o.violation("C07", "selection:missing", fmt.Sprintf("requested %v (no-deps=%v): %v disabled although requested or a transitive dependency", req, nodeps, missing), in)
				}
			}
		}
	}
	eval(permMode{Kind: "default"})
	if base == nil {
		return
	}
	for _, m := range permModes(base, full) {
		eval(m)
	}
}

// ---- E1 part: disabled / foreground / namespace markings are never started automatically ----

func c07Scenarios(tier string) []*Scenario {
	var scs []*Scenario
	marks := []string{"", "disabled", "foreground", "ns"}
	for _, m0 := range marks {
		for _, m1 := range marks {
			for _, m2 := range marks {
				if m0 == "" && m1 == "" && m2 == "" {
					continue
				}
				ms := []string{m0, m1, m2}
				var pcs []PC
				want := map[string]bool{}
				for i, m := range ms {
					pc := PC{Name: c07Name(i)}
					switch m {
					case "disabled":
						pc.Lines = append(pc.Lines, "disabled: true")
					case "foreground":
						pc.Lines = append(pc.Lines, "is_foreground: true")
					case "ns":
						pc.Lines = append(pc.Lines, "namespace: other")
					default:
						want[c07Name(i)] = true
					}
					pcs = append(pcs, pc)
				}
				procs := map[string]*ProcScript{}
				for i := range ms {
					procs[c07Name(i)] = &ProcScript{Launches: exits(0)}
				}
				sc := &Scenario{ID: "c07-marks-" + strings.Join(ms, ","), YAML: projectYAML(nil, pcs...), Procs: procs, K: 0, Namespaces: []string{"default"}}
				sc.Check = func(w *World) []Violation {
					var vs []Violation
					started := map[string]bool{}
					for _, e := range w.pre() {
						if e.Kind == "start" {
							started[baseOf(e.Proc)] = true
						}
					}
					for i, m := range ms {
						n := c07Name(i)
						if started[n] && !want[n] {
							mm := m
							if mm == "ns" {
								mm = "namespace"
							}
							vs = append(vs, viol("C07", "auto-started:"+mm, "%s (%s) was started automatically", n, m))
						}
						if !started[n] && want[n] {
							vs = append(vs, viol("C07", "not-started", "%s was not started although nothing excludes it (outcome %s)", n, w.Outcome))
						}
					}
					return vs
				}
				scs = append(scs, sc)
			}
		}
	}
	return scs
}
