package vh

// C09 Reported state is truthful: status transitions, is_running, exit code, restarts.
// A monitor over the scenario sets of C01, C02, C04, C05 and C08.

import (
	"fmt"
	"strings"
)

func init() { registry["C09"] = &propDef{e1: c09Scenarios} }

var c09Legal = map[string][]string{
	"Pending":     {"Running", "Launching", "Skipped", "Error", "Terminating"},
	"Running":     {"Restarting", "Terminating", "Completed", "Error"},
	"Launching":   {"Launched", "Restarting", "Terminating", "Completed", "Error"},
	"Launched":    {"Restarting", "Terminating", "Completed"},
	"Restarting":  {"Running", "Launching", "Completed", "Terminating", "Error"},
	"Terminating": {"Completed", "Restarting", "Skipped"},
}

var c09AfterRequest = []string{"Running", "Launching", "Skipped", "Error", "Terminating", "Pending"}

func contains(l []string, s string) bool {
	for _, x := range l {
		if x == s {
			return true
		}
	}
	return false
}

func c09Scenarios(tier string) []*Scenario {
	var scs []*Scenario
	take := func(src []*Scenario, filter func(*Scenario) bool, k int) {
		for _, sc := range src {
			if filter != nil && !filter(sc) {
				continue
			}
			sc.ID = "c09@" + sc.ID
			sc.Check = c09Check
			sc.Snap = true
			if k >= 0 && sc.K > k {
				sc.K = k
			}
			scs = append(scs, sc)
		}
	}
	kmax := 1
	if tier == "thorough" {
		kmax = 2
	}
	take(c01Scenarios(tier), nil, kmax)
	take(c05Scenarios(tier), nil, kmax)
	take(c04Scenarios(tier), nil, kmax)
	take(c08Scenarios(tier), func(sc *Scenario) bool {
		return strings.Contains(sc.ID, "-seq-") && (tier == "thorough" || strings.Count(sc.ID, "+") == 0 || strings.Contains(sc.ID, "-slowdie-"))
	}, kmax)
	take(c10Scenarios(tier), func(sc *Scenario) bool {
		// probe-induced stops / restarts and the daemon (Launching/Launched) life cycle
		if tier == "thorough" {
			return strings.Contains(sc.ID, "thr2") || strings.Contains(sc.ID, "daemontrue") || strings.Contains(sc.ID, "selfexit")
		}
		return (strings.Contains(sc.ID, "thr1") && strings.Contains(sc.ID, "-none-")) || strings.Contains(sc.ID, "daemontrue") || strings.Contains(sc.ID, "selfexit")
	}, kmax)
	take(c02Scenarios(tier), func(sc *Scenario) bool {
		if tier == "thorough" {
			return strings.Contains(sc.ID, "-bo1-") || strings.Contains(sc.ID, "-bo0-")
		}
		return strings.Contains(sc.ID, "-bo1-") && !strings.Contains(sc.ID, "max2") && strings.Count(sc.ID, " ") <= 1
	}, kmax)
	// a daemon (the launcher has exited, the process is reported Launched) with a configured shutdown
	// command that works, fails or hangs, and every request that stops it
	for _, beh := range []string{"ok", "fail", "hang"} {
		for _, op := range []string{"stop", "restart", "shutdown"} {
			pc := PC{Name: "a", Lines: []string{"is_daemon: true", "shutdown:", "  command: \"stop-a\"", "  timeout_seconds: 2"}}
			launchedD := func(w *World) bool { return w.lastStat["a"] == "Launched" }
			sc := &Scenario{
				ID:         fmt.Sprintf("c09-daemon-stopcmd-%s-%s", beh, op),
				YAML:       projectYAML(nil, pc, PC{Name: "x"}),
				Procs:      map[string]*ProcScript{"a": {Launches: exits(0)}, "x": {}},
				Aux:        map[string][]string{"stop-a": {beh}},
				K:          kmax,
				TickBudget: 2,
				Snap:       true,
				API:        [][]APICall{{{Op: op, Name: "a", When: launchedD}}},
			}
			sc.Check = c09Check
			scs = append(scs, sc)
		}
	}
	return scs
}

func c09Check(w *World) []Violation {
	var vs []Violation
	tr := w.pre()
	// ---- transition monitor -------------------------------------------------
	cur := map[string]string{}
	entered := map[string]int{}
	// an explicit request for the process that is in flight at position upto or was
	// issued / served since position since
	requested := func(name string, since int, upto int) bool {
		inflight := map[int]bool{}
		for i := 0; i < upto; i++ {
			e := tr[i]
			if e.Kind != "api-call" && e.Kind != "api-ret" {
				continue
			}
			op := strings.SplitN(e.Data, "(", 2)[0]
			match := false
			switch op {
			case "start", "restart":
				match = e.Proc == name
			case "scale", "update":
				match = true
			}
			if !match {
				continue
			}
			if e.Kind == "api-call" {
				inflight[e.Inst] = true
				if i >= since {
					return true
				}
			} else {
				delete(inflight, e.Inst)
				if i >= since {
					return true
				}
			}
		}
		return len(inflight) > 0
	}
	initial := func(name string) string {
		if w.Project != nil {
			if pc, ok := w.Project.Processes[name]; ok {
				if pc.Disabled {
					return "Disabled"
				}
				if pc.IsForeground {
					return "Foreground"
				}
			}
		}
		return "Pending"
	}
	for i, e := range tr {
		if e.Kind != "state" {
			continue
		}
		from, ok := cur[e.Proc]
		if !ok {
			from = initial(e.Proc)
			entered[e.Proc] = 0
			// scaling renames replicas (b <-> b-0): the state travels with the process
			if j := strings.LastIndex(e.Proc, "-"); j > 0 {
				if st, ok := cur[e.Proc[:j]]; ok && strings.Trim(e.Proc[j+1:], "0") == "" {
					from, entered[e.Proc] = st, entered[e.Proc[:j]]
				}
			} else if st, ok := cur[e.Proc+"-0"]; ok {
				from, entered[e.Proc] = st, entered[e.Proc+"-0"]
			}
		}
		to := e.Data
		if from == to {
			continue
		}
		legal := contains(c09Legal[from], to)
		if legal && to == "Restarting" {
			// Restarting means "waiting to be relaunched": not after a command that was brought down by a stop
			// request (the last command died from a signal of the supervisor that followed a stop / restart /
			// shutdown request issued after its launch)
			lastStart, lastExit := -1, -1
			for j := 0; j < i; j++ {
				if tr[j].Proc == key0(e.Proc) && tr[j].Kind == "start" {
					lastStart = j
				}
				if tr[j].Proc == key0(e.Proc) && tr[j].Kind == "exit" {
					lastExit = j
				}
			}
			if lastExit > lastStart && lastStart >= 0 && tr[lastExit].Flag {
				sig := -1
				for j := lastStart; j < lastExit; j++ {
					if tr[j].Proc == key0(e.Proc) && tr[j].Kind == "signal" {
						sig = j
						break
					}
				}
				for j := lastStart; j < sig; j++ {
					if tr[j].Kind == "api-call" && (tr[j].Data == "stop("+e.Proc+")" || tr[j].Data == "restart("+e.Proc+")" || strings.HasPrefix(tr[j].Data, "shutdown")) {
						legal = false
						vs = append(vs, viol("C09", "illegal-transition:"+from+"->Restarting:after-stop-request", "process %s: %s -> Restarting at t=%v although its command was brought down by %s", e.Proc, from, e.T, tr[j].Data))
						break
					}
				}
				if !legal {
					cur[e.Proc] = to
					entered[e.Proc] = i
					continue
				}
			}
		}
		if !legal && from == "Pending" && to == "Completed" {
			// stopped before start: legal when a stop / restart / shutdown was requested, or an
			// exit_on_* process has already ended (internal project shutdown)
			for j := 0; j < i && !legal; j++ {
				x := tr[j]
				switch {
				case x.Kind == "api-call" && (strings.HasPrefix(x.Data, "stop") || strings.HasPrefix(x.Data, "restart") || strings.HasPrefix(x.Data, "shutdown")):
					legal = true
				case (x.Kind == "exit" || x.Kind == "startfail") && w.Project != nil:
					if pc, ok := w.Project.Processes[baseOf(x.Proc)]; ok && (pc.RestartPolicy.ExitOnEnd || pc.RestartPolicy.Restart == "exit_on_failure") {
						legal = true
					}
				case x.Kind == "state" && x.Data == "Error" && w.Project != nil:
					if pc, ok := w.Project.Processes[x.Proc]; ok && (pc.RestartPolicy.ExitOnEnd || pc.RestartPolicy.Restart == "exit_on_failure") {
						legal = true
					}
				case x.Kind == "state" && x.Data == "Skipped" && w.Project != nil:
					if pc, ok := w.Project.Processes[x.Proc]; ok && pc.RestartPolicy.ExitOnSkipped {
						legal = true
					}
				}
			}
		}
		if !legal {
			if _, transient := c09Legal[from]; !transient {
				// terminal (Completed, Skipped, Error, Disabled, Foreground): only on an explicit request
				legal = contains(c09AfterRequest, to) && requested(e.Proc, entered[e.Proc], i)
			}
		}
		if !legal && from == "Terminating" && contains(c09AfterRequest, to) && requested(e.Proc, entered[e.Proc], i) {
			// a process stopped while it was pending has no command and stays Terminating; a start or
			// restart request then creates the next instance straight from that status
			alive := 0
			for j := 0; j < i; j++ {
				if baseOf(tr[j].Proc) == e.Proc && tr[j].Kind == "start" {
					alive++
				} else if baseOf(tr[j].Proc) == e.Proc && tr[j].Kind == "exit" {
					alive--
				}
			}
			legal = alive == 0
		}
		if !legal {
			vs = append(vs, viol("C09", "illegal-transition:"+from+"->"+to, "process %s: status %s -> %s at t=%v without a request that allows it", e.Proc, from, to, e.T))
		}
		cur[e.Proc] = to
		entered[e.Proc] = i
	}
	// ---- ground truth at quiescent snapshots ----------------------------------
	isDaemon := func(name string) bool {
		if w.Project != nil {
			if pc, ok := w.Project.Processes[name]; ok {
				return pc.IsDaemon
			}
		}
		return false
	}
	// "Completed only when none is alive and being terminated": a terminal state is not published while the
	// configured stop command of the process is still at work (for a daemon that command is all there is to see)
	{
		running := map[string]bool{} // stop commands asked for and not yet answered, by process name
		for _, e := range tr {
			switch {
			case e.Kind == "aux-req" && strings.HasPrefix(e.Proc, "aux:stop"):
				if i := strings.LastIndex(e.Proc, "-"); i >= 0 {
					running[e.Proc[i+1:]] = true
				}
			case e.Kind == "aux-ans" && strings.HasPrefix(e.Proc, "aux:stop"):
				if i := strings.LastIndex(e.Proc, "-"); i >= 0 {
					delete(running, e.Proc[i+1:])
				}
			case e.Kind == "state" && running[e.Proc] && (e.Data == "Completed" || e.Data == "Error" || e.Data == "Skipped"):
				vs = append(vs, viol("C09", "terminal-while-stopping:"+e.Data, "process %s is reported %s while its shutdown command is still running (t=%v)", e.Proc, e.Data, e.T))
				delete(running, e.Proc)
			}
		}
	}
	snaps := append([]Snapshot(nil), w.Snapshots...)
	if w.Final != nil {
		snaps = append(snaps, *w.Final)
	}
	endT := w.preEndT()
	for _, sn := range snaps {
		if sn.T > endT {
			continue
		}
		for name, st := range sn.States {
			if isDaemon(name) || strings.Contains(name, "-") {
				continue
			}
			alive := sn.Alive[key0(name)] > 0
			if st.IsRunning && !alive {
				vs = append(vs, viol("C09", "is-running-mismatch:reported-running-none-alive:"+st.Status, "process %s reported is_running (status %s) but no command of it is alive (t=%v)", name, st.Status, sn.T))
			}
			if alive && !st.IsRunning && st.Status != "Terminating" {
				vs = append(vs, viol("C09", "is-running-mismatch:alive-not-reported:"+st.Status, "a command of %s is alive but it is reported status %s is_running=false (t=%v)", name, st.Status, sn.T))
			}
			if alive && (st.Status == "Completed" || st.Status == "Skipped" || st.Status == "Error") {
				vs = append(vs, viol("C09", "terminal-but-alive:"+st.Status, "process %s reported %s while a command of it is alive (t=%v)", name, st.Status, sn.T))
			}
			if !alive && (st.Status == "Completed" || st.Status == "Skipped" || st.Status == "Error") {
				// exit code of the last command
				lastKind, lastCode := "", 0
				for i := 0; i < sn.Pos && i < len(tr); i++ {
					e := tr[i]
					if e.Proc == key0(name) && (e.Kind == "exit" || e.Kind == "startfail") {
						lastKind, lastCode = e.Kind, e.Code
					}
				}
				switch {
				case st.Status == "Skipped" && st.ExitCode == 0:
					vs = append(vs, viol("C09", "exit-code-mismatch:Skipped", "process %s is Skipped with exit code 0", name))
				case st.Status == "Error" && st.ExitCode == 0:
					vs = append(vs, viol("C09", "exit-code-mismatch:Error", "process %s could not be started but reports exit code 0", name))
				case st.Status == "Completed" && lastKind == "exit" && st.ExitCode != lastCode:
					class := "plain"
					if w.Project != nil {
						for _, pc := range w.Project.Processes {
							if d, ok := pc.DependsOn[name]; ok && d.Condition == cHealthy {
								class = "dependency-of-healthy-waiter"
							}
						}
					}
					vs = append(vs, viol("C09", "exit-code-mismatch:Completed:"+class, "process %s reports exit code %d, its last command exited with %d", name, st.ExitCode, lastCode))
				}
			}
		}
	}
	// ---- nothing stays transient once nothing is alive and nothing can happen ------
	if (w.Outcome == "completed" || w.Outcome == "stuck") && w.Final != nil {
		anyAlive := false
		for _, n := range w.Final.Alive {
			if n > 0 {
				anyAlive = true
			}
		}
		for name, st := range w.Final.States {
			if isDaemon(name) && st.Status != "Terminating" && st.Status != "Restarting" {
				continue // a daemon without a command of its own is Launched, legitimately
			}
			alive := w.Final.Alive[key0(name)] > 0
			switch st.Status {
			case "Pending", "Launching", "Restarting", "Terminating":
				if !alive && (!anyAlive || st.Status != "Pending") {
					// Pending with other processes alive may legitimately still be waiting
					// (the recorded finding is about an instance that was stopped before it ever launched a command:
					// no command of the process was alive when it entered the state it is stuck in)
					how := ""
					enteredAt := -1
					for i, e := range tr {
						if e.Kind == "state" && e.Proc == name {
							if e.Data == st.Status && (enteredAt < 0 || statusAt(tr, name, i) != st.Status) {
								enteredAt = i
							}
						}
					}
					aliveThen := 0
					for i := 0; i < enteredAt; i++ {
						if tr[i].Proc == key0(name) && tr[i].Kind == "start" {
							aliveThen++
						} else if tr[i].Proc == key0(name) && tr[i].Kind == "exit" {
							aliveThen--
						}
					}
					everStarted := findEvent(tr, 0, func(e Event) bool { return e.Kind == "start" && e.Proc == key0(name) }) >= 0
					switch {
					case aliveThen > 0:
						how = ":had-a-command"
					case everStarted && st.Status == "Terminating" && findEvent(tr, 0, func(e Event) bool {
						return e.Kind == "api-call" && (e.Data == "start("+name+")" || e.Data == "restart("+name+")")
					}) < 0:
						// never started or restarted by hand, so it is not a new pending instance: the stop request came
						// when the only command had just gone
						how = ":after-exit"
					}
					vs = append(vs, viol("C09", "stuck-transient:"+st.Status+how, "process %s stays %s although it has no command alive and nothing left to wait for (outcome %s)", name, st.Status, w.Outcome))
				}
			}
		}
	}
	return vs
}
