package vh

// C18, last clause: a websocket follower that reads, stalls or disconnects never holds up
// the process it follows or its other followers. The real HandleLogsStream is served by a
// real net/http server over an in-bubble net.Pipe connection to a gorilla client.

import (
	"errors"
	"fmt"
	"net"
	"net/http"
	"net/url"
	"strings"
	"sync"
	"time"

	"github.com/f1bonacc1/process-compose/src/api"
	"github.com/gorilla/websocket"
)

type oneConnListener struct {
	mu   sync.Mutex
	conn net.Conn
	done chan struct{}
}

func (l *oneConnListener) Accept() (net.Conn, error) {
	l.mu.Lock()
	c := l.conn
	l.conn = nil
	l.mu.Unlock()
	if c != nil {
		return c, nil
	}
	<-l.done
	return nil, errors.New("listener closed")
}
func (l *oneConnListener) Close() error {
	select {
	case <-l.done:
	default:
		close(l.done)
	}
	return nil
}
func (l *oneConnListener) Addr() net.Addr { return &net.TCPAddr{IP: net.IPv4(127, 0, 0, 1), Port: 80} }

type c18wsFollower struct {
	mode string // all | stall | disconnect
	got  []string
	err  string
}

func c18wsScenarios(tier string) []*Scenario {
	var scs []*Scenario
	lines := 300
	for _, mode := range []string{"all", "history", "stall", "disconnect"} {
		for _, after := range []int{0, 3} {
			if (mode == "all" || mode == "history") && after != 0 {
				continue
			}
			mode, after := mode, after
			var sb strings.Builder
			for i := 0; i < lines; i++ {
				fmt.Fprintf(&sb, "w%d\n", i)
			}
			subscribed := func(w *World) bool { _, ok := w.Extra["ws-subscribed"]; return ok }
			sc := &Scenario{
				ID:   fmt.Sprintf("c18-ws-%s-after%d", mode, after),
				YAML: projectYAML([]string{"log_length: 1000"}, PC{Name: "a"}),
				Procs: map[string]*ProcScript{"a": {Launches: [][]Action{{Out("first\n"), Out(sb.String()), Exit(0)}},
					Hold: func(w *World, pc int) bool { return pc >= 1 && !subscribed(w) }}},
				K: 0, EnvCost: 1, Idle: 30 * time.Second,
			}
			launched := func(w *World) bool { return len(w.procs) > 0 }
			offset := 5
			if mode == "history" {
				// the follower arrives when the log already holds more lines than the handler's channel has
				// slots and asks for all of them (the bundled client asks for its log length, 1000 by default)
				sc.Procs["a"].Hold = nil
				launched = func(w *World) bool { return len(w.procs) > 0 && w.procs[0].pc >= 2 }
				offset = 1000
			}
			follower := APICall{Op: "fn", Name: "ws-follow:" + mode, When: launched, Fn: func(w *World) (string, error) {
				f := &c18wsFollower{mode: mode}
				w.Extra["ws"] = f
				engine := api.InitRoutes(false, api.NewPcApi(w.Runner))
				srvConn, cliConn := net.Pipe()
				ln := &oneConnListener{conn: srvConn, done: make(chan struct{})}
				srv := &http.Server{Handler: engine}
				go srv.Serve(ln)
				u, _ := url.Parse(fmt.Sprintf("ws://pc/process/logs/ws?name=a&offset=%d&follow=true", offset))
				ws, _, err := websocket.NewClient(cliConn, u, nil, 1024, 1024)
				if err != nil {
					f.err = err.Error()
					return "", err
				}
				w.mu.Lock()
				w.Extra["ws-subscribed"] = true
				w.mu.Unlock()
				n := 0
				for {
					if mode != "all" && mode != "history" && n >= after {
						break
					}
					var m api.LogMessage
					if err := ws.ReadJSON(&m); err != nil {
						f.err = err.Error()
						break
					}
					f.got = append(f.got, m.Message)
					n++
					if m.Message == fmt.Sprintf("w%d", lines-1) {
						break
					}
				}
				switch mode {
				case "disconnect":
					cliConn.Close()
				case "stall":
					// never reads again; the connection stays open
				}
				ln.Close()
				return fmt.Sprint(n), nil
			}}
			sc.API = [][]APICall{{follower}}
			sc.Check = func(w *World) []Violation {
				var vs []Violation
				log, _ := w.Runner.GetProcessLog("a", 100000, 0)
				complete := len(log) >= lines+1
				if w.Outcome != "completed" || !complete {
					vs = append(vs, viol("C18", "follower-blocks:writer:"+mode, "with a websocket follower that %ss (after %d messages) the followed process did not finish writing its log: outcome %s, %d of %d lines in the log, blocked %v", mode, after, w.Outcome, len(log), lines+1, w.Blocked))
				}
				if f, ok := w.Extra["ws"].(*c18wsFollower); ok && mode == "history" {
					if len(f.got) < lines+1 {
						vs = append(vs, viol("C18", "history:ws-incomplete", "websocket follower asking for the last 1000 lines of a log of %d received %d messages (outcome %s, err %s, blocked %v)", lines+1, len(f.got), w.Outcome, f.err, w.Blocked))
					}
				}
				if f, ok := w.Extra["ws"].(*c18wsFollower); ok && mode == "all" && w.Outcome == "completed" {
					if len(f.got) < lines {
						vs = append(vs, viol("C18", "handover:ws-gap", "reading websocket follower received %d messages, %d lines were written after it subscribed (err %s)", len(f.got), lines, f.err))
					}
					for i := 1; i < len(f.got); i++ {
						if f.got[i] == f.got[i-1] {
							vs = append(vs, viol("C18", "handover:ws-duplicate", "websocket follower received %q twice", f.got[i]))
							break
						}
					}
				}
				return vs
			}
			scs = append(scs, sc)
		}
	}
	return scs
}
