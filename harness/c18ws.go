package vh

// C18, last clause: a websocket follower that reads, stalls or disconnects never holds up
// the process it follows or its other followers. The real HandleLogsStream is served by a
// real net/http server over an in-bubble net.Pipe connection to a gorilla client.

import (
	"errors"
	"fmt"
	"net"
	"net/http"
	"net/url"
	"strings"
	"sync"
	"time"

	"github.com/f1bonacc1/process-compose/src/api"
	"github.com/f1bonacc1/process-compose/src/vrt"
	"github.com/gorilla/websocket"
)

type oneConnListener struct {
	mu   sync.Mutex
	conn net.Conn
	done chan struct{}
}

func (l *oneConnListener) Accept() (net.Conn, error) {
	l.mu.Lock()
	c := l.conn
	l.conn = nil
	l.mu.Unlock()
	if c != nil {
		return c, nil
	}
	<-l.done
	return nil, errors.New("listener closed")
}
func (l *oneConnListener) Close() error {
	select {
	case <-l.done:
	default:
		close(l.done)
	}
	return nil
}
func (l *oneConnListener) Addr() net.Addr { return &net.TCPAddr{IP: net.IPv4(127, 0, 0, 1), Port: 80} }

type c18wsFollower struct {
	mode         string // all | stall | disconnect
	got          []string
	err          string
	lastA, lastB bool
}

func c18wsScenarios(tier string) []*Scenario {
	var scs []*Scenario
	lines := 300
	for _, mode := range []string{"all", "two", "history", "stall", "disconnect"} {
		for _, after := range []int{0, 3} {
			if (mode == "all" || mode == "history" || mode == "two") && after != 0 {
				continue
			}
			mode, after := mode, after
			lines := lines
			if mode == "two" {
				lines = 12 // explored with one deviation: keep the executions short
			}
			var sb strings.Builder
			for i := 0; i < lines; i++ {
				fmt.Fprintf(&sb, "w%d\n", i)
			}
			subscribed := func(w *World) bool { _, ok := w.Extra["ws-subscribed"]; return ok }
			sc := &Scenario{
				ID:   fmt.Sprintf("c18-ws-%s-after%d", mode, after),
				YAML: projectYAML([]string{"log_length: 1000"}, PC{Name: "a"}),
				Procs: map[string]*ProcScript{"a": {Launches: [][]Action{{Out("first\n"), Out(sb.String()), Exit(0)}},
					Hold: func(w *World, pc int) bool { return pc >= 1 && !subscribed(w) }}},
				K: 0, EnvCost: 1, Idle: 30 * time.Second,
			}
			launched := func(w *World) bool { return len(w.procs) > 0 }
			names := "a"
			if mode == "two" {
				// one stream following two processes that both write: their lines share the connection
				names = "a,b"
				sc.YAML = projectYAML([]string{"log_length: 1000"}, PC{Name: "a"}, PC{Name: "b"})
				sc.Procs["b"] = &ProcScript{Launches: [][]Action{{Out("bfirst\n"), Out(strings.ReplaceAll(sb.String(), "w", "v")), Exit(0)}},
					Hold: func(w *World, pc int) bool { return pc >= 1 && !subscribed(w) }}
				launched = func(w *World) bool { return len(w.procs) > 1 }
				sc.K = 1
			}
			offset := 5
			if mode == "two" {
				offset = 1000 // whatever was written before the subscription took effect comes as history
			}
			if mode == "history" {
				// the follower arrives when the log already holds more lines than the handler's channel has
				// slots and asks for all of them (the bundled client asks for its log length, 1000 by default)
				sc.Procs["a"].Hold = nil
				launched = func(w *World) bool { return len(w.procs) > 0 && w.procs[0].pc >= 2 }
				offset = 1000
			}
			follower := APICall{Op: "fn", Name: "ws-follow:" + mode, When: launched, Fn: func(w *World) (string, error) {
				f := &c18wsFollower{mode: mode}
				w.Extra["ws"] = f
				engine := api.InitRoutes(false, api.NewPcApi(w.Runner))
				srvConn, cliConn := net.Pipe()
				ln := &oneConnListener{conn: srvConn, done: make(chan struct{})}
				srv := &http.Server{Handler: engine}
				go srv.Serve(ln)
				u, _ := url.Parse(fmt.Sprintf("ws://pc/process/logs/ws?name=%s&offset=%d&follow=true", names, offset))
				ws, _, err := websocket.NewClient(cliConn, u, nil, 1024, 1024)
				if err != nil {
					f.err = err.Error()
					return "", err
				}
				w.mu.Lock()
				w.Extra["ws-subscribed"] = true
				w.mu.Unlock()
				n := 0
				for {
					if mode != "all" && mode != "history" && mode != "two" && n >= after {
						break
					}
					if mode == "two" {
						// a viewer that takes its time: reading a message is a step of its own, so a writer can be
						// in the middle of a frame when the other process has a line to send
						vrt.Yield("ws-read")
					}
					var m api.LogMessage
					if err := ws.ReadJSON(&m); err != nil {
						f.err = err.Error()
						break
					}
					f.got = append(f.got, m.Message)
					n++
					if m.Message == fmt.Sprintf("w%d", lines-1) {
						f.lastA = true
					}
					if m.Message == fmt.Sprintf("v%d", lines-1) {
						f.lastB = true
					}
					if f.lastA && (mode != "two" || f.lastB) {
						break
					}
				}
				switch mode {
				case "disconnect":
					cliConn.Close()
				case "stall":
					// never reads again; the connection stays open
				}
				ln.Close()
				return fmt.Sprint(n), nil
			}}
			sc.API = [][]APICall{{follower}}
			sc.Check = func(w *World) []Violation {
				var vs []Violation
				log, _ := w.Runner.GetProcessLog("a", 100000, 0)
				complete := len(log) >= lines+1
				if w.Outcome != "completed" || !complete {
					vs = append(vs, viol("C18", "follower-blocks:writer:"+mode, "with a websocket follower that %ss (after %d messages) the followed process did not finish writing its log: outcome %s, %d of %d lines in the log, blocked %v", mode, after, w.Outcome, len(log), lines+1, w.Blocked))
				}
				if f, ok := w.Extra["ws"].(*c18wsFollower); ok && mode == "two" {
					na, nb := 0, 0
					for _, l := range f.got {
						if strings.HasPrefix(l, "w") {
							na++
						} else if strings.HasPrefix(l, "v") {
							nb++
						}
					}
					if na < lines || nb < lines || f.err != "" {
						vs = append(vs, viol("C18", "two-processes:ws-incomplete", "a follower of two processes on one websocket received %d of %d lines of a and %d of %d of b (err %q, outcome %s)", na, lines, nb, lines, f.err, w.Outcome))
					}
				}
				if f, ok := w.Extra["ws"].(*c18wsFollower); ok && mode == "history" {
					if len(f.got) < lines+1 {
						vs = append(vs, viol("C18", "history:ws-incomplete", "websocket follower asking for the last 1000 lines of a log of %d received %d messages (outcome %s, err %s, blocked %v)", lines+1, len(f.got), w.Outcome, f.err, w.Blocked))
					}
				}
				if f, ok := w.Extra["ws"].(*c18wsFollower); ok && mode == "all" && w.Outcome == "completed" {
					if len(f.got) < lines {
						vs = append(vs, viol("C18", "handover:ws-gap", "reading websocket follower received %d messages, %d lines were written after it subscribed (err %s)", len(f.got), lines, f.err))
					}
					for i := 1; i < len(f.got); i++ {
						if f.got[i] == f.got[i-1] {
							vs = append(vs, viol("C18", "handover:ws-duplicate", "websocket follower received %q twice", f.got[i]))
							break
						}
					}
				}
				return vs
			}
			scs = append(scs, sc)
		}
	}
	return scs
}
