package vh

// C02 Restart policy: relaunch exactly when availability says so.

import (
	"fmt"
	"time"
)

func init() { registry["C02"] = &propDef{e1: c02Scenarios} }

func policyAllows(policy string, code int) bool {
	switch policy {
	case "always":
		return true
	case "on_failure":
		return code != 0
	}
	return false
}

func c02Scenarios(tier string) []*Scenario {
	var scs []*Scenario
	policies := []string{"always", "on_failure", "no", "exit_on_failure", ""}
	maxes := []int{0, 1, 2}
	backoffs := []int{0, 1, 3}
	stops := []string{"none", "stop", "shutdown"}
	maxLen := 3
	k := 1
	if tier == "thorough" {
		maxLen = 4
		k = 2
	}
	for _, pol := range policies {
		for _, mx := range maxes {
			for _, bo := range backoffs {
				if tier != "thorough" && bo == 3 && mx == 2 {
					continue
				}
				limit := mx + 2
				if limit > maxLen {
					limit = maxLen
				}
				if mx == 0 {
					limit = maxLen - 1
				}
				// all exit-code sequences over {0,1} of length 1..limit
				for l := 1; l <= limit; l++ {
					for bits := 0; bits < 1<<l; bits++ {
						codes := make([]int, l)
						for i := range codes {
							codes[i] = (bits >> i) & 1
						}
						// skip sequences that continue after the policy has ended the process: the
						// tail would never be consumed (keeps the scenario list free of duplicates)
						dead := false
						rel := 0
						for i := 0; i < l-1; i++ {
							if !(policyAllows(pol, codes[i]) && (mx == 0 || rel < mx)) {
								dead = true
								break
							}
							rel++
						}
						if dead {
							continue
						}
						for _, stop := range stops {
							if tier != "thorough" && stop != "none" && l > 2 {
								continue
							}
							scs = append(scs, c02Scenario(pol, mx, bo, codes, stop, k))
						}
						// other ways to fail than "exit 1": killed by a signal nobody here sent (-1), exit 2
						if bits != 0 && pol != "no" && pol != "" && (tier == "thorough" || (bo == 1 && mx < 2)) {
							for _, alt := range []int{-1, 2} {
								c2 := make([]int, l)
								for i := range codes {
									c2[i] = codes[i] * alt
								}
								scs = append(scs, c02Scenario(pol, mx, bo, c2, "none", k))
							}
						}
					}
				}
			}
		}
	}
	// exits brought about by the supervisor itself without any stop request: a readiness probe that fails
	// failure_threshold times makes it terminate the command; the policy decides about the relaunch as
	// after any other exit (the command dies from the signal: a failure)
	for _, pol := range []string{"always", "on_failure", "no"} {
		pc := PC{Name: "a", Restart: pol, Backoff: 1, Max: 1, Lines: []string{"readiness_probe:", "  exec:", "    command: \"probe-a\"",
			"  period_seconds: 1", "  failure_threshold: 1"}}
		pol := pol
		sc := &Scenario{
			ID:         fmt.Sprintf("c02-probe-kill-%s-max1", pol),
			YAML:       projectYAML(nil, pc),
			Procs:      map[string]*ProcScript{"a": {}},
			Aux:        map[string][]string{"probe-a": {"fail"}},
			K:          k,
			TickBudget: 2,
		}
		sc.Check = func(w *World) []Violation { return c02Check(w, pol, 1, 1, "none") }
		scs = append(scs, sc)
	}
	// ordered shutdown: a is stopped only after its dependent b has died; a may exit by itself meanwhile
	for _, pol := range []string{"always", "on_failure"} {
		for _, bo := range []int{0, 2} {
			for _, codes := range [][]int{{1}, {1, 1}} {
				pc := PC{Name: "a", Restart: pol, Backoff: bo}
				launches := append(exits(codes...), []Action{})
				sc := &Scenario{
					ID:         fmt.Sprintf("c02-ordered-%s-bo%d-%v", pol, bo, codes),
					YAML:       projectYAML(nil, pc, PC{Name: "b", Deps: map[string]string{"a": "process_started"}}),
					Procs:      map[string]*ProcScript{"a": {Launches: launches}, "b": {}},
					K:          k,
					TickBudget: len(codes) + 1,
					Ordered:    true,
				}
				bUp := func(w *World) bool { return w.launches["b#0"] > 0 }
				sc.API = [][]APICall{{{Op: "shutdown", When: bUp}}}
				pol, bo := pol, bo
				sc.Check = func(w *World) []Violation { return c02Check(w, pol, 0, bo, "shutdown") }
				scs = append(scs, sc)
			}
		}
	}
	// a process that used up its restarts and completed is started again by hand: the limit and the reported count
	// are those of the process, not of the instance (it was never stopped)
	for _, pol := range []string{"always", "on_failure"} {
		pol := pol
		sc := &Scenario{
			ID:         fmt.Sprintf("c02-manual-start-after-max-%s", pol),
			YAML:       projectYAML(nil, PC{Name: "a", Restart: pol, Backoff: 1, Max: 1}, PC{Name: "x"}),
			Procs:      map[string]*ProcScript{"a": {Launches: exits(1)}, "x": {}},
			K:          0, // (thorough: k) every order of requests, exits and timers at quiescence; no deviations inside the calls
			TickBudget: 5,
			Snap:       true,
		}
		completed := func(w *World) bool { return w.lastStat["a"] == "Completed" && w.launches["a#0"] >= 2 }
		sc.API = [][]APICall{{{Op: "start", Name: "a", When: completed}}}
		sc.Check = func(w *World) []Violation {
			tr := w.pre()
			ret := findEvent(tr, 0, func(e Event) bool { return e.Kind == "api-ret" && !e.Flag })
			if ret < 0 || (w.Outcome != "stuck" && w.Outcome != "completed") {
				return nil
			}
			starts := 0
			for _, e := range tr {
				if e.Kind == "start" && e.Proc == "a#0" {
					starts++
				}
			}
			var vs []Violation
			if relaunches := starts - 2; relaunches > 1 { // one automatic launch, one manual start
				vs = append(vs, viol("C02", "max-restarts-exceeded:after-manual-start", "max_restarts 1: %d relaunches by policy in all (the manual start of the completed process began a new budget)", relaunches))
			}
			if w.Final != nil {
				if st, ok := w.Final.States["a"]; ok && st.Restarts != starts-2 && starts >= 2 {
					vs = append(vs, viol("C02", "restart-count:after-manual-start", "the process was relaunched %d times by its policy and never stopped, %d restarts are reported", starts-2, st.Restarts))
				}
			}
			return vs
		}
		scs = append(scs, sc)
	}
	// max_restarts changed by a live update (nothing else changes): the new limit applies from then on
	for _, pol := range []string{"always", "on_failure"} {
		pol := pol
		const oldMax, newMax = 5, 1
		mkYAML := func(mx int) string {
			return projectYAML(nil, PC{Name: "a", Restart: pol, Backoff: 1, Max: mx}, PC{Name: "x"})
		}
		sc := &Scenario{
			ID:         fmt.Sprintf("c02-update-max-restarts-%s", pol),
			YAML:       mkYAML(oldMax),
			Procs:      map[string]*ProcScript{"a": {Launches: exits(1)}, "x": {}},
			K:          0,
			TickBudget: 8,
			Horizon:    30 * time.Second,
		}
		launched := func(w *World) bool { return w.launches["a#0"] > 0 }
		sc.API = [][]APICall{{{Op: "update", YAML: mkYAML(newMax), When: launched}}}
		sc.Check = func(w *World) []Violation {
			tr := w.pre()
			ret := findEvent(tr, 0, func(e Event) bool { return e.Kind == "api-ret" && !e.Flag })
			if ret < 0 {
				return nil
			}
			n := 0
			for i := ret; i < len(tr); i++ {
				if tr[i].Kind == "start" && tr[i].Proc == "a#0" {
					n++
				}
			}
			if n > 1+newMax {
				return []Violation{viol("C02", "max-restarts-exceeded:after-update", "max_restarts was updated from %d to %d; %d commands were launched after the update had been served (at most %d: the new instance and %d relaunch)", oldMax, newMax, n, 1+newMax, newMax)}
			}
			return nil
		}
		scs = append(scs, sc)
	}
	// a restart request that arrives while the process waits out its back-off: the new command is still not
	// launched sooner than backoff_seconds after the exit of the old one
	for _, pol := range []string{"always", "on_failure"} {
		for _, bo := range []int{2, 3} {
			pol, bo := pol, bo
			sc := &Scenario{
				ID:         fmt.Sprintf("c02-restart-request-in-backoff-%s-bo%d", pol, bo),
				YAML:       projectYAML(nil, PC{Name: "a", Restart: pol, Backoff: bo}),
				Procs:      map[string]*ProcScript{"a": {Launches: append(exits(1), []Action{})}},
				K:          k,
				TickBudget: bo + 2,
			}
			restarting := func(w *World) bool { return w.lastStat["a"] == "Restarting" }
			sc.API = [][]APICall{{{Op: "restart", Name: "a", When: restarting}}}
			sc.Check = func(w *World) []Violation {
				var vs []Violation
				tr := w.pre()
				lastExit := time.Duration(-1)
				for _, e := range tr {
					if e.Proc != "a#0" {
						continue
					}
					switch e.Kind {
					case "exit":
						lastExit = e.T
					case "start":
						if lastExit >= 0 && e.T-lastExit < time.Duration(bo)*time.Second {
							vs = append(vs, viol("C02", "gap-too-short:restart-request", "command launched %v after the exit of the previous one, back-off %ds (a restart request arrived in between)", e.T-lastExit, bo))
						}
					}
				}
				return vs
			}
			scs = append(scs, sc)
		}
	}
	// default (unordered) shutdown with a sibling that is slow to stop (ignores SIGTERM, killed after 3 s): the
	// processes are stopped one after the other in map order; a may exit by itself while the shutdown is
	// busy with the sibling
	for _, pol := range []string{"always", "on_failure"} {
		for _, bo := range []int{0, 1} {
			pc := PC{Name: "a", Restart: pol, Backoff: bo}
			sc := &Scenario{
				ID:         fmt.Sprintf("c02-slow-sibling-%s-bo%d", pol, bo),
				YAML:       projectYAML(nil, pc, PC{Name: "s", Lines: []string{"shutdown:", "  timeout_seconds: 3"}}),
				Procs:      map[string]*ProcScript{"a": {Launches: append(exits(1), []Action{})}, "s": {OnTerm: "ignore"}},
				K:          k,
				TickBudget: 3,
				MapSites:   []string{"ShutDownProject"},
			}
			bothUp := func(w *World) bool { return w.launches["a#0"] > 0 && w.launches["s#0"] > 0 }
			sc.API = [][]APICall{{{Op: "shutdown", When: bothUp}}}
			pol, bo := pol, bo
			sc.Check = func(w *World) []Violation { return c02Check(w, pol, 0, bo, "shutdown") }
			scs = append(scs, sc)
		}
	}
	scs = append(scs, c02MainScenarios(k)...)
	return scs
}

// c02MainScenarios: the same for the main process of `process-compose run a` (it runs with exit_on_end forced on;
// its restart policy, back-off and max_restarts are the configured ones).
func c02MainScenarios(k int) []*Scenario {
	var scs []*Scenario
	for _, pol := range []string{"always", "on_failure"} {
		for _, mx := range []int{0, 1, 2} {
			for _, codes := range [][]int{{1, 1, 1, 1}, {1, 0}, {1, 1, 0}} {
				sc := c02Scenario(pol, mx, 1, codes, "none", k)
				sc.ID += "-main"
				sc.Main = "a"
				scs = append(scs, sc)
			}
		}
	}
	return scs
}

func c02Scenario(pol string, mx, bo int, codes []int, stop string, k int) *Scenario {
	pc := PC{Name: "a", Restart: pol, Backoff: bo, Max: mx}
	launches := exits(codes...)
	launches = append(launches, []Action{}) // afterwards it runs until killed
	sc := &Scenario{
		ID:         fmt.Sprintf("c02-%s-max%d-bo%d-%v-%s", orDash(pol), mx, bo, codes, stop),
		YAML:       projectYAML(nil, pc),
		Procs:      map[string]*ProcScript{"a": {Launches: launches}},
		K:          k,
		TickBudget: len(codes) + 1,
	}
	// the property quantifies over request instants from "running" onwards (the
	// shutdown that arrives before anything was launched belongs to C03)
	launched := func(w *World) bool { return w.launches["a#0"] > 0 }
	switch stop {
	case "stop":
		sc.API = [][]APICall{{{Op: "stop", Name: "a", When: launched}}}
	case "shutdown":
		sc.API = [][]APICall{{{Op: "shutdown", When: launched}}}
	}
	sc.Check = func(w *World) []Violation { return c02Check(w, pol, mx, bo, stop) }
	return sc
}

func orDash(s string) string {
	if s == "" {
		return "unset"
	}
	return s
}

func c02Check(w *World, pol string, mx, bo int, stop string) []Violation {
	var vs []Violation
	tr := w.pre()
	key := "a#0"
	minGap := time.Duration(bo) * time.Second
	if minGap < time.Second {
		minGap = time.Second
	}
	stopReq, stopRet := -1, -1
	stopFailed := false
	for i, e := range tr {
		if e.Kind == "api-call" && stopReq < 0 {
			stopReq = i
		}
		if e.Kind == "api-ret" && stopRet < 0 {
			stopRet = i
			stopFailed = e.Flag
		}
	}
	var starts, exitsIdx []int
	for i, e := range tr {
		if e.Proc != key {
			continue
		}
		switch e.Kind {
		case "start":
			starts = append(starts, i)
		case "exit":
			exitsIdx = append(exitsIdx, i)
		}
	}
	relaunches := len(starts) - 1
	if relaunches < 0 {
		relaunches = 0
	}
	if mx > 0 && relaunches > mx {
		vs = append(vs, viol("C02", "max-restarts-exceeded", "%d relaunches with max_restarts=%d", relaunches, mx))
	}
	for n, ei := range exitsIdx {
		e := tr[ei]
		// the start that follows this exit, if any
		next := -1
		if n+1 < len(starts) {
			next = starts[n+1]
		}
		allowed := policyAllows(pol, e.Code) && (mx == 0 || n < mx)
		stopBefore := stopReq >= 0 && stopReq < ei
		if next >= 0 {
			if gap := tr[next].T - e.T; gap < minGap {
				vs = append(vs, viol("C02", "gap-too-short", "relaunch %v after exit, back-off %v", gap, minGap))
			}
			if stopBefore && !e.Flag {
				// the command exited by itself after the stop / shutdown had been requested
				vs = append(vs, viol("C02", "relaunch-after-stop-request:"+statusAt(tr, "a", stopReq), "exit #%d happened after the %s request and was still followed by a relaunch", n, stop))
			}
			if !stopBefore && !allowed {
				vs = append(vs, viol("C02", "relaunch-forbidden:"+orDash(pol), "exit #%d code %d was followed by a relaunch (policy %q, max %d)", n, e.Code, pol, mx))
			}
			if stopRet >= 0 && !stopFailed && stopRet < next {
				vs = append(vs, viol("C02", "relaunch-after-stop:"+statusAt(tr, "a", stopReq), "command launched after the %s request had returned", stop))
			}
		} else {
			// a relaunch is due unless a stop was requested before it could happen
			// (the back-off starts when the supervisor has handled the exit, which a schedule with k
			// deviations may delay by up to k clock quanta: be that much more patient)
			slack := time.Duration(w.sc.K+1) * quantum
			due := stopReq < 0 || (stopReq > ei && tr[stopReq].T-e.T > minGap+slack)
			// (an exit caused by a signal of the supervisor counts when nobody ever asked for a stop: a probe did it)
			if allowed && due && (!e.Flag || stopReq < 0) && !(e.Flag && w.Outcome == "cutoff") {
				vs = append(vs, viol("C02", "relaunch-missing:"+orDash(pol), "exit #%d code %d was not followed by a relaunch (policy %q, max %d, outcome %s)", n, e.Code, pol, mx, w.Outcome))
			}
		}
	}
	// after a successful stop nothing of the process may stay alive
	if stopRet >= 0 && !stopFailed {
		alive := false
		for _, f := range w.procs {
			if f.Key == key && f.started && (!f.exited || f.inCleanup) {
				alive = true
			}
		}
		if alive {
			vs = append(vs, viol("C02", "alive-after-stop:"+statusAt(tr, "a", stopReq), "a command of the process is still alive at the horizon although the %s request returned", stop))
		}
	}
	// reported restart count for never-stopped processes
	if stop == "none" && w.Final != nil {
		if st, ok := w.Final.States["a"]; ok && st.Status != "Restarting" {
			if st.Restarts != relaunches {
				vs = append(vs, viol("C02", "restart-count", "reported restarts %d, relaunches %d (status %s)", st.Restarts, relaunches, st.Status))
			}
		}
	}
	return vs
}
