package vh

// Engine E3: conformance of the fake OS with the real one. Every assumption the
// fake operating system of engine E1 makes about exec / wait / pipes / signals /
// process groups / environment is exercised here against REAL children through
// the REAL command.CmdWrapper (no factory installed), and - when a binary was
// built - against the real process-compose binary. The finite case list is run
// completely; a mismatch means the model of the environment is wrong (engine
// error), not that a property is violated.

import (
	"bufio"
	"context"
	"encoding/json"
	"fmt"
	"io"
	"os"
	"os/exec"
	"path/filepath"
	"strconv"
	"strings"
	"syscall"
	"time"

	"github.com/f1bonacc1/process-compose/src/command"
)

type osconfResult struct {
	Cases    int      `json:"cases"`
	Passed   int      `json:"passed"`
	Failures []string `json:"failures"`
	Samples  []string `json:"samples"`
	Binary   bool     `json:"binary_cases_run"`
}

func (r *osconfResult) check(name string, ok bool, detail string) {
	r.Cases++
	if ok {
		r.Passed++
		if len(r.Samples) < 8 {
			r.Samples = append(r.Samples, name+": "+detail)
		}
	} else {
		r.Failures = append(r.Failures, name+": "+detail)
	}
}

// waitCmd waits for a command with a time-out; on time-out the whole group is killed.
func waitCmd(c *command.CmdWrapper) bool {
	done := make(chan struct{})
	go func() { _ = c.Wait(); close(done) }()
	select {
	case <-done:
		return true
	case <-time.After(20 * time.Second):
		_ = c.Stop(9, false)
		_ = c.Stop(9, true)
		select {
		case <-done:
		case <-time.After(5 * time.Second):
		}
		return false
	}
}

func waitFor(d time.Duration, f func() bool) bool {
	deadline := time.Now().Add(d)
	for time.Now().Before(deadline) {
		if f() {
			return true
		}
		time.Sleep(10 * time.Millisecond)
	}
	return f()
}

// pidsWithMarker scans /proc for live processes whose environment contains marker.
func pidsWithMarker(marker string) []int {
	var pids []int
	ents, _ := os.ReadDir("/proc")
	for _, e := range ents {
		pid, err := strconv.Atoi(e.Name())
		if err != nil {
			continue
		}
		b, err := os.ReadFile(filepath.Join("/proc", e.Name(), "environ"))
		if err != nil || !strings.Contains(string(b), marker) {
			continue
		}
		st, err := os.ReadFile(filepath.Join("/proc", e.Name(), "stat"))
		if err == nil {
			// state is the field after the ")" of the command name; skip zombies
			if i := strings.LastIndex(string(st), ")"); i >= 0 && len(st) > i+2 && st[i+2] == 'Z' {
				continue
			}
		}
		pids = append(pids, pid)
	}
	return pids
}

func killMarker(marker string) {
	for _, p := range pidsWithMarker(marker) {
		syscall.Kill(p, syscall.SIGKILL)
	}
}

func runOSConf(binary string) *osconfResult {
	r := &osconfResult{}
	command.VerifFactory = nil
	env := func(marker string) []string { return append(os.Environ(), "VHMARK="+marker) }
	// A. exit codes
	for _, code := range []int{0, 1, 3, 255} {
		c := command.BuildCommand("sh", []string{"-c", fmt.Sprintf("exit %d", code)})
		err := c.Start()
		waitCmd(c)
		r.check(fmt.Sprintf("exit-code-%d", code), err == nil && c.ExitCode() == code, fmt.Sprintf("ExitCode()=%d", c.ExitCode()))
	}
	// B. death by signal is reported as -1; ExitCode before Wait is -1 as well
	{
		c := command.BuildCommand("sh", []string{"-c", "sleep 30"})
		c.SetCmdArgs()
		_ = c.Start()
		before := c.ExitCode()
		_ = c.Stop(15, false)
		waitCmd(c)
		r.check("signal-death-exit-code", c.ExitCode() == -1 && before == -1, fmt.Sprintf("before Wait %d, after %d", before, c.ExitCode()))
	}
	// C. pipes: bytes, unterminated tail with EOF, read after Wait fails with "file already closed"
	{
		c := command.BuildCommand("sh", []string{"-c", "printf 'a\\nb'"})
		out, _ := c.StdoutPipe()
		_ = c.Start()
		rd := bufio.NewReader(out)
		l1, e1 := rd.ReadString('\n')
		l2, e2 := rd.ReadString('\n')
		waitCmd(c)
		_, e3 := out.Read(make([]byte, 8))
		ok := l1 == "a\n" && e1 == nil && l2 == "b" && e2 == io.EOF && e3 != nil && strings.Contains(e3.Error(), "file already closed")
		r.check("pipe-eof-and-closed-after-wait", ok, fmt.Sprintf("%q,%v %q,%v after-wait:%v", l1, e1, l2, e2, e3))
	}
	{
		// data not read before Wait is lost to the reader (Wait closes the parent's end)
		c := command.BuildCommand("sh", []string{"-c", "printf 'x\\n'"})
		out, _ := c.StdoutPipe()
		_ = c.Start()
		waitCmd(c)
		_, err := bufio.NewReader(out).ReadString('\n')
		r.check("pipe-wait-before-read-loses-data", err != nil && err != io.EOF, fmt.Sprint(err))
	}
	// D. signalling a reaped process is an error
	for _, po := range []bool{false, true} {
		c := command.BuildCommand("sh", []string{"-c", "exit 0"})
		c.SetCmdArgs()
		_ = c.Start()
		waitCmd(c)
		err := c.Stop(15, po)
		r.check(fmt.Sprintf("stop-after-reap-parentonly-%v", po), err != nil, fmt.Sprint(err))
	}
	// E. group vs parent-only delivery to descendants (child and grandchild)
	for _, po := range []bool{false, true} {
		marker := fmt.Sprintf("vhE%d%v", os.Getpid(), po)
		c := command.BuildCommand("sh", []string{"-c", "sh -c 'sleep 30 & wait' & sleep 30 & wait"})
		c.SetEnv(env(marker))
		c.SetCmdArgs()
		_ = c.Start()
		up := waitFor(5*time.Second, func() bool { return len(pidsWithMarker(marker)) >= 4 })
		_ = c.Stop(15, po)
		waitCmd(c)
		var ok bool
		var n int
		if po {
			// only the parent dies; its descendants survive
			time.Sleep(150 * time.Millisecond)
			n = len(pidsWithMarker(marker))
			ok = up && n >= 2
		} else {
			ok = up && waitFor(5*time.Second, func() bool { n = len(pidsWithMarker(marker)); return n == 0 })
		}
		r.check(fmt.Sprintf("signal-target-parentonly-%v", po), ok, fmt.Sprintf("started=%v survivors=%d", up, n))
		killMarker(marker)
	}
	// F. a process ignoring SIGTERM survives it and dies from SIGKILL
	{
		marker := fmt.Sprintf("vhF%d", os.Getpid())
		c := command.BuildCommand("sh", []string{"-c", "trap '' TERM; while true; do sleep 1; done"})
		c.SetEnv(env(marker))
		c.SetCmdArgs()
		_ = c.Start()
		waitFor(3*time.Second, func() bool { return len(pidsWithMarker(marker)) >= 1 })
		time.Sleep(100 * time.Millisecond) // let the trap be installed
		_ = c.Stop(15, false)
		time.Sleep(300 * time.Millisecond)
		alive := len(pidsWithMarker(marker)) >= 1
		_ = c.Stop(9, false)
		waitCmd(c)
		dead := waitFor(5*time.Second, func() bool { return len(pidsWithMarker(marker)) == 0 })
		r.check("sigterm-ignored-sigkill-kills", alive && dead && c.ExitCode() == -1, fmt.Sprintf("alive-after-TERM=%v dead-after-KILL=%v code=%d", alive, dead, c.ExitCode()))
		killMarker(marker)
	}
	// G. signal clamp: out-of-range values behave as SIGTERM, 1..31 are delivered as such
	// (SIGUSR1/SIGUSR2 rather than SIGINT/SIGHUP: the latter are ignored - and cannot be trapped by a
	// shell - when the check itself runs under nohup or as a background job)
	for _, sig := range []int{0, 32, -3, 10, 12} {
		dir, _ := os.MkdirTemp("", "vh-osconf-")
		f := filepath.Join(dir, "got")
		c := command.BuildCommand("sh", []string{"-c", fmt.Sprintf("trap 'echo TERM > %s; exit 0' TERM; trap 'echo USR1 > %s; exit 0' USR1; trap 'echo USR2 > %s; exit 0' USR2; echo ready > %s.r; while true; do sleep 0.05; done", f, f, f, f)})
		c.SetCmdArgs()
		_ = c.Start()
		waitFor(5*time.Second, func() bool { _, err := os.Stat(f + ".r"); return err == nil })
		_ = c.Stop(sig, true)
		waitCmd(c)
		b, _ := os.ReadFile(f)
		want := "TERM"
		if sig == 10 {
			want = "USR1"
		} else if sig == 12 {
			want = "USR2"
		}
		r.check(fmt.Sprintf("signal-clamp-%d", sig), strings.TrimSpace(string(b)) == want, fmt.Sprintf("received %q want %s", strings.TrimSpace(string(b)), want))
		os.RemoveAll(dir)
	}
	// H. context expiry kills the command and Run reports an error
	{
		ctx, cancel := context.WithTimeout(context.Background(), 300*time.Millisecond)
		c := command.BuildCommandContext(ctx, "sleep 30")
		t0 := time.Now()
		err := c.Run()
		cancel()
		r.check("context-expiry-kills", err != nil && time.Since(t0) < 10*time.Second, fmt.Sprintf("%v after %v", err, time.Since(t0).Round(time.Millisecond)))
	}
	// I. duplicate environment keys: the last one wins; Dir is honoured
	{
		c := command.BuildCommand("sh", []string{"-c", "echo $VHX; pwd"})
		c.SetEnv(append(os.Environ(), "VHX=1", "VHX=2"))
		c.SetDir("/tmp")
		out, err := c.Output()
		r.check("env-last-wins-and-dir", err == nil && strings.TrimSpace(string(out)) == "2\n/tmp", fmt.Sprintf("%q %v", out, err))
	}
	// J. start failure
	{
		c := command.BuildCommand("/nonexistent-vh-binary", nil)
		err := c.Start()
		r.check("start-failure", err != nil, fmt.Sprint(err))
	}
	// K. the real binary: exit status and signals (only when it was built)
	if binary != "" {
		r.Binary = true
		dir, _ := os.MkdirTemp("", "vh-osconf-bin-")
		defer os.RemoveAll(dir)
		again := time.Duration(0) // when set, the signal is sent a second time after this delay
		run := func(name, yaml string, sig syscall.Signal, marker string) (int, bool) {
			fn := filepath.Join(dir, name+".yaml")
			os.WriteFile(fn, []byte(yaml), 0o644)
			cmd := exec.Command(binary, "-f", fn, "-t=false", "--no-server")
			cmd.Env = append(os.Environ(), "VHMARK="+marker, "PC_DISABLE_TUI=1", "XDG_CONFIG_HOME="+dir, "HOME="+dir)
			cmd.Dir = dir
			cmd.Stdout, cmd.Stderr = nil, nil
			if err := cmd.Start(); err != nil {
				return -100, false
			}
			if sig != 0 {
				waitFor(10*time.Second, func() bool { return len(pidsWithMarker(marker)) >= 3 })
				time.Sleep(100 * time.Millisecond)
				cmd.Process.Signal(sig)
				if again > 0 {
					time.Sleep(again)
					cmd.Process.Signal(sig)
				}
			}
			done := make(chan error, 1)
			go func() { done <- cmd.Wait() }()
			select {
			case <-done:
			case <-time.After(60 * time.Second):
				cmd.Process.Kill()
				<-done
				return -101, false
			}
			clean := waitFor(5*time.Second, func() bool { return len(pidsWithMarker(marker)) == 0 })
			killMarker(marker)
			return cmd.ProcessState.ExitCode(), clean
		}
		y := func(body string) string { return "version: \"0.5\"\nprocesses:\n" + body }
		type bc struct {
			name, yaml string
			want       int
		}
		for _, c := range []bc{
			{"no-trigger", y("  a:\n    command: \"exit 3\"\n  b:\n    command: \"exit 0\"\n"), 0},
			{"exit-on-failure-42", y("  a:\n    command: \"exit 42\"\n    availability:\n      restart: exit_on_failure\n  b:\n    command: \"sleep 30\"\n"), 42},
			{"exit-on-end-5", y("  a:\n    command: \"exit 5\"\n    availability:\n      exit_on_end: true\n  b:\n    command: \"sleep 30\"\n"), 5},
			{"exit-on-skipped", y("  a:\n    command: \"exit 1\"\n  b:\n    command: \"echo b\"\n    depends_on:\n      a:\n        condition: process_completed_successfully\n    availability:\n      exit_on_skipped: true\n  c:\n    command: \"sleep 30\"\n"), 1},
		} {
			marker := fmt.Sprintf("vhK%d%s", os.Getpid(), c.name)
			code, clean := run(c.name, c.yaml, 0, marker)
			r.check("binary-exit-status-"+c.name, code == c.want && clean, fmt.Sprintf("exit status %d (want %d), no survivors=%v", code, c.want, clean))
		}
		// a configured shutdown command that is still running (with a child of its own shell) when its
		// time-out expires: SIGKILL follows the time-out, the stop does not wait for the command's children
		{
			marker := fmt.Sprintf("vhC%d", os.Getpid())
			t0 := time.Now()
			code, clean := run("stop-command-timeout", y("  a:\n    command: \"sleep 60\"\n    shutdown:\n      command: \"sleep 45; true\"\n      timeout_seconds: 1\n  b:\n    command: \"sleep 60\"\n  c:\n    command: \"sleep 60\"\n"), syscall.SIGTERM, marker)
			el := time.Since(t0)
			r.check("binary-stop-command-timeout-kill", code != -101 && el < 30*time.Second, fmt.Sprintf("exit status %d after %v (stop command sleeps 45 s, time-out 1 s), no survivors=%v", code, el.Round(time.Millisecond), clean))
		}
		// an impatient second signal while the shutdown is still waiting for a process that ignores SIGTERM
		// (killed after timeout_seconds): the supervisor finishes the shutdown, nothing survives
		{
			marker := fmt.Sprintf("vhT%d", os.Getpid())
			again = 500 * time.Millisecond
			code, clean := run("signal-twice", y("  a:\n    command: \"trap '' TERM; sleep 60 & wait\"\n    shutdown:\n      timeout_seconds: 2\n  b:\n    command: \"sleep 60\"\n"), syscall.SIGTERM, marker)
			again = 0
			r.check("binary-signal-twice-no-survivors", clean && code != -101, fmt.Sprintf("exit status %d, no survivors=%v", code, clean))
		}
		for _, sg := range []syscall.Signal{syscall.SIGTERM, syscall.SIGINT, syscall.SIGHUP} {
			marker := fmt.Sprintf("vhS%d%d", os.Getpid(), int(sg))
			code, clean := run(fmt.Sprintf("signal-%d", int(sg)), y("  a:\n    command: \"sleep 30 & sleep 30 & wait\"\n  b:\n    command: \"sleep 30\"\n"), sg, marker)
			r.check(fmt.Sprintf("binary-signal-%d-no-survivors", int(sg)), clean && code != -101, fmt.Sprintf("exit status %d, no survivors=%v", code, clean))
		}
	}
	return r
}

func writeOSConf(path, binary string) {
	r := runOSConf(binary)
	b, _ := json.MarshalIndent(r, "", " ")
	os.WriteFile(path, b, 0o644)
}
