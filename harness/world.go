package vh

// One execution of one scenario under a choice sequence: fresh bubble, fresh
// project loaded by the real loader, fresh ProjectRunner, fresh fake OS.

import (
	"fmt"
	"hash/fnv"
	"os"
	"path/filepath"
	"runtime"
	"sort"
	"strings"
	"sync"
	"testing"
	"testing/synctest"
	"time"

	"github.com/f1bonacc1/process-compose/src/admitter"
	"github.com/f1bonacc1/process-compose/src/app"
	"github.com/f1bonacc1/process-compose/src/command"
	"github.com/f1bonacc1/process-compose/src/loader"
	"github.com/f1bonacc1/process-compose/src/types"
	"github.com/f1bonacc1/process-compose/src/vrt"
)

// APICall is one request of a scripted API thread.
type APICall struct {
	Op   string // start stop restart scale update shutdown state states log ...
	Name string
	N    int
	YAML string              // update: new project
	When func(w *World) bool // optional gate (evaluated at quiescence)
	Fn   func(w *World) (string, error)
}

func (c APICall) String() string {
	s := c.Op + "(" + c.Name
	if c.Op == "scale" {
		s += fmt.Sprintf(",%d", c.N)
	}
	return s + ")"
}

// Scenario is a closed system: configuration + environment behaviour + API scripts + bounds.
type Scenario struct {
	ID         string
	OnState    func(w *World, name, status string) // called (outside the harness lock) whenever the runner publishes a state
	YAML       string
	Files      map[string]string
	Procs      map[string]*ProcScript // by configured name, or name#num
	Aux        map[string][]string    // aux command line -> outcomes per call (last repeats): ok fail hang
	AuxEffect  map[string]string      // aux command line -> "kill:<name>" effect on success
	EnvCmdOut  map[string]string
	API        [][]APICall
	Ordered    bool
	ToRun      []string
	NoDeps     bool
	Main       string
	MainArgs   []string // extra arguments of the main process (process-compose run a -- args)
	TuiOn      bool
	K          int           // deviation bound
	FreeSwitch bool          // switching away from a blocked thread costs nothing
	TickBudget int           // ticks that may be chosen while other environment events are available
	Horizon    time.Duration // hard virtual-time horizon (default 600s)
	Idle       time.Duration // idle horizon: no activity for this long means stuck (default 40s)
	MapSites   []string      // substrings of MapRange sites explored under the scheduler
	NoRun      bool          // do not call Run() (pure API scenarios)
	Namespaces []string      // namespace admitter (as `-n`)
	Snap       bool          // take a GetProcessesState snapshot at every quiescent choice point
	EnvCost    int           // cost of a non-default environment event at quiescence (0 = all orders explored)
	Transport  string        // C19: "rest" or "direct"
	AuxAsEnv   bool          // the completion of an auxiliary command is an environment event (else a thread step)
	Setup      func(w *World)
	Check      func(w *World) []Violation
	Note       string
	Env        map[string]string // process environment for the duration of the execution
	dir        string            // scratch directory of the scenario (created on first use)
	written    bool
}

// Cleanup removes the scenario's scratch directory.
func (sc *Scenario) Cleanup() {
	if sc.dir != "" {
		os.RemoveAll(sc.dir)
		sc.dir = ""
		sc.written = false
	}
}

func (sc *Scenario) script(name string, num int) *ProcScript {
	if ps, ok := sc.Procs[fmt.Sprintf("%s#%d", name, num)]; ok {
		return ps
	}
	return sc.Procs[name]
}

func (sc *Scenario) auxOutcome(key string, n int) string {
	o := sc.Aux[key]
	if len(o) == 0 {
		return "ok"
	}
	if n >= len(o) {
		n = len(o) - 1
	}
	return o[n]
}

// Violation is what a monitor reports.
type Violation struct {
	Prop string
	Sig  string // signature: rule id + mechanism class (configuration independent)
	Msg  string
}

// ChoicePoint records one decision of the execution.
type ChoicePoint struct {
	N      int      // number of options
	Costs  []int    // cost of each option (0 for the default)
	Labels []string // human label per option
	Chosen int
}

// World is the state of one execution.
type World struct {
	sc        *Scenario
	mu        sync.Mutex
	sched     *vrt.Sched
	t0        time.Time
	trace     []Event
	procs     []*FProc
	byWrapper map[*command.CmdWrapper]*FProc
	launches  map[string]int
	auxCalls  map[string]int
	auxLog    []*FProc
	nextPid   int
	Runner    *app.ProjectRunner
	Project   *types.Project
	LoadErr   error
	RunDone   bool
	RunErr    error
	RunT      time.Duration
	apiLeft   int
	apiRes    []APIResult
	dir       string
	ticksUsed int
	Points    []ChoicePoint
	grantHash uint64
	Steps     int
	states    map[uint64]bool
	Outcome   string // completed | deadlock | hang | horizon
	Blocked   []string
	Snapshots []Snapshot
	Extra     map[string]any
	cleaning  bool
	idleH     time.Duration
	lastAct   time.Duration
	Final     *Snapshot
	lastStat  map[string]string
}

type APIResult struct {
	Thread int
	Idx    int
	Call   APICall
	T0, T1 time.Duration
	Err    error
	Val    string
	Done   bool
}

// Snapshot is GetProcessesState() taken by the controller at a quiescent point.
type Snapshot struct {
	T      time.Duration
	Step   int
	States map[string]types.ProcessState
	Alive  map[string]int // live fake processes per key
	Pos    int            // trace length when the snapshot was taken
}

func (w *World) now() time.Duration { return time.Since(w.t0) }

// release drops what an execution recorded once it has been judged: goroutines that outlive their bubble keep the
// World reachable (through the fake processes) for the life of the worker.
func (w *World) release() {
	w.mu.Lock()
	defer w.mu.Unlock()
	w.trace, w.Points, w.Snapshots, w.Final, w.apiRes, w.auxLog = nil, nil, nil, nil, nil, nil
	for _, f := range w.procs {
		f.Env, f.Args, f.Written, f.script = nil, nil, nil, nil
		if f.stdout != nil {
			f.stdout.buf = nil
		}
		if f.stderr != nil {
			f.stderr.buf = nil
		}
	}
	w.Extra = nil
	w.sched = nil
}

func (w *World) addEvent(e Event) {
	e.T = w.now()
	w.trace = append(w.trace, e)
}

func (w *World) event(e Event) {
	w.mu.Lock()
	w.addEvent(e)
	w.mu.Unlock()
}

func (w *World) aliveKeysLocked() []string {
	var a []string
	for _, f := range w.procs {
		if f.Alive() {
			a = append(a, f.Key)
		}
	}
	return a
}

// Trace returns a copy of the event trace.
func (w *World) Trace() []Event {
	w.mu.Lock()
	defer w.mu.Unlock()
	return append([]Event(nil), w.trace...)
}

func (w *World) applyAuxEffectLocked(key string) {
	eff := w.sc.AuxEffect[key]
	if strings.HasPrefix(eff, "kill:") {
		name := eff[5:]
		for _, f := range w.procs {
			if f.Name == name && f.Alive() {
				f.dying = true
				f.dieCode = 0
			}
		}
	}
}

// envEvent is an environment event offered to the explorer.
type envEvent struct {
	label string
	fire  func()
}

func (w *World) fakeEvents() []envEvent {
	w.mu.Lock()
	defer w.mu.Unlock()
	var evs []envEvent
	for _, f := range w.procs {
		f := f
		if !f.Alive() {
			continue
		}
		if f.dying {
			if f.dieAt > 0 && w.now() < f.dieAt {
				continue
			}
			evs = append(evs, envEvent{label: "die(" + f.Key + ")", fire: func() {
				w.mu.Lock()
				f.exitLocked(f.dieCode, true)
				w.mu.Unlock()
			}})
			continue
		}
		if f.pc < len(f.script) {
			if f.ps != nil && f.ps.Hold != nil && f.ps.Hold(w, f.pc) {
				continue
			}
			a := f.script[f.pc]
			evs = append(evs, envEvent{label: fmt.Sprintf("%s(%s,%q,%d)", a.Kind, f.Key, short(a.Data), a.Code), fire: func() {
				w.mu.Lock()
				f.pc++
				switch a.Kind {
				case "out", "err":
					p := f.stdout
					stream := "stdout"
					if a.Kind == "err" {
						p, stream = f.stderr, "stderr"
					}
					if p != nil && !p.rclosed {
						p.buf = append(p.buf, a.Data...)
					}
					f.Written[stream] = append(f.Written[stream], a.Data)
					w.addEvent(Event{Kind: "write", Proc: f.Key, Inst: f.Inst, Data: stream + ":" + a.Data})
				case "exit":
					f.exitLocked(a.Code, false)
				}
				w.mu.Unlock()
			}})
		}
	}
	return evs
}

func short(s string) string {
	if len(s) > 12 {
		return s[:12] + "…"
	}
	return s
}

func (w *World) anyAlive() bool {
	w.mu.Lock()
	defer w.mu.Unlock()
	for _, f := range w.procs {
		if f.Alive() {
			return true
		}
	}
	return false
}

// LiveCount returns the number of live fake processes per key.
func (w *World) liveCountLocked() map[string]int {
	m := map[string]int{}
	for _, f := range w.procs {
		if f.Alive() {
			m[f.Key]++
		}
	}
	return m
}

const quantum = 250 * time.Millisecond

var devNull *os.File

var stateDump map[string]bool

// wantStacks: dump goroutine stacks of stuck executions (replay mode only; expensive)
var wantStacks bool

var dbgRounds, dbgAux int

var dbgBusy = os.Getenv("VH_DBG") != ""

var leakDump = os.Getenv("VH_LEAKDUMP") != ""

// RunExecution runs the scenario under the given choice prefix (choice 0 afterwards).
func RunExecution(t *testing.T, sc *Scenario, prefix []int) (w *World) {
	w = &World{sc: sc, byWrapper: map[*command.CmdWrapper]*FProc{}, launches: map[string]int{}, auxCalls: map[string]int{},
		nextPid: 2_000_000_000, states: map[uint64]bool{}, Extra: map[string]any{}, lastStat: map[string]string{}}
	if sc.dir == "" {
		dir, err := os.MkdirTemp("", "vh-scen-")
		if err != nil {
			panic(err)
		}
		sc.dir = dir
	}
	w.dir = sc.dir
	for k, v := range sc.Env {
		old, had := os.LookupEnv(k)
		os.Setenv(k, v)
		defer func(k, old string, had bool) {
			if had {
				os.Setenv(k, old)
			} else {
				os.Unsetenv(k)
			}
		}(k, old, had)
	}
	defer func() {
		command.VerifFactory = nil
		app.VerifStateHook = nil
		if s := w.sched; s != nil {
			s.Detach()
		}
		if r := recover(); r != nil {
			msg := fmt.Sprint(r)
			if strings.Contains(msg, "deadlock: main bubble goroutine has exited") {
				w.Extra["leaked"] = true
				return
			}
			panic(r)
		}
	}()
	synctest.Test(t, func(t *testing.T) {
		w.body(prefix)
	})
	return w
}

func (w *World) writeFiles() string {
	sc := w.sc
	main := filepath.Join(w.dir, "process-compose.yaml")
	if sc.written {
		return main
	}
	sc.written = true
	os.WriteFile(main, []byte(strings.ReplaceAll(sc.YAML, "@DIR@", w.dir)), 0o644)
	for name, content := range sc.Files {
		os.MkdirAll(filepath.Dir(filepath.Join(w.dir, name)), 0o755)
		os.WriteFile(filepath.Join(w.dir, name), []byte(strings.ReplaceAll(content, "@DIR@", w.dir)), 0o644)
	}
	return main
}

// LoadYAML loads a project from YAML text through the real loader.
func (w *World) LoadYAML(name, yaml string) (*types.Project, error) {
	fn := filepath.Join(w.dir, name)
	os.WriteFile(fn, []byte(strings.ReplaceAll(yaml, "@DIR@", w.dir)), 0o644)
	opts := &loader.LoaderOptions{FileNames: []string{fn}, IsInternalLoader: true}
	opts.DisableDotenv(true)
	return loader.Load(opts)
}

func (w *World) body(prefix []int) {
	sc := w.sc
	w.t0 = time.Now()
	main := w.writeFiles()
	opts := &loader.LoaderOptions{FileNames: []string{main}, IsInternalLoader: true}
	opts.DisableDotenv(true)
	if len(sc.Namespaces) > 0 {
		opts.AddAdmitter(&admitter.NamespaceAdmitter{EnabledNamespaces: sc.Namespaces})
	}
	project, err := loader.Load(opts)
	if err != nil {
		w.LoadErr = err
		w.Outcome = "loaderror"
		return
	}
	w.Project = project
	po := &app.ProjectOpts{}
	po.WithProject(project).WithProcessesToRun(sc.ToRun).WithNoDeps(sc.NoDeps).WithMainProcess(sc.Main).WithMainProcessArgs(sc.MainArgs).
		WithIsTuiOn(sc.TuiOn).WithOrderedShutDown(sc.Ordered)
	runner, err := app.NewProjectRunner(po)
	if err != nil {
		w.LoadErr = err
		w.Outcome = "loaderror"
		return
	}
	w.Runner = runner
	command.VerifFactory = w.factory
	app.VerifStateHook = func(name, status string, st *types.ProcessState) {
		w.mu.Lock()
		w.lastStat[name] = status
		w.addEvent(Event{Kind: "state", Proc: name, Data: status, Code: st.ExitCode})
		w.mu.Unlock()
		if sc.OnState != nil {
			sc.OnState(w, name, status)
		}
	}
	s := vrt.NewSched()
	if len(sc.MapSites) > 0 {
		s.MapSites = func(site string) bool {
			for _, m := range sc.MapSites {
				if strings.Contains(site, m) {
					return true
				}
			}
			return false
		}
	}
	w.sched = s
	s.Attach()
	if sc.Setup != nil {
		sc.Setup(w)
	}
	if !sc.NoRun {
		go func() {
			vrt.Yield("run")
			err := runner.Run()
			w.mu.Lock()
			w.RunDone, w.RunErr, w.RunT = true, err, w.now()
			code := 0
			if ee, ok := err.(*app.ExitError); ok {
				code = ee.Code
			} else if err != nil {
				code = -999
			}
			w.addEvent(Event{Kind: "run-ret", Code: code, Alive: w.aliveKeysLocked()})
			w.mu.Unlock()
		}()
	} else {
		w.RunDone = true
	}
	w.apiLeft = len(sc.API)
	for ti, calls := range sc.API {
		ti, calls := ti, calls
		for ci := range calls {
			w.apiRes = append(w.apiRes, APIResult{Thread: ti, Idx: ci, Call: calls[ci]})
		}
		go w.apiThread(ti, calls)
	}
	w.control(prefix)
	synctest.Wait()
	w.Final = w.TakeSnapshot()
	w.cleanup()
	w.drain()
	if leakDump {
		synctest.Wait()
		if st := bubbleStacksAll(); st != "" {
			fmt.Fprintf(os.Stderr, "LEAKDUMP outcome=%s\n%s\n", w.Outcome, st)
			leakDump = false
		}
	}
}

func (w *World) apiThread(ti int, calls []APICall) {
	for ci, c := range calls {
		c := c
		op := &vrt.Op{Kind: "api", Tag: fmt.Sprintf("T%d:%s", ti, c), Env: true}
		if c.When != nil {
			op.Enabled = func() bool { return c.When(w) }
		}
		vrt.Point(op)
		w.mu.Lock()
		if w.cleaning {
			// the observed part of the execution is over: do not issue further requests
			w.apiLeft--
			w.mu.Unlock()
			return
		}
		t0 := w.now()
		w.addEvent(Event{Kind: "api-call", Proc: c.Name, Inst: ti, Data: c.String(), Code: c.N, Alive: w.aliveKeysLocked()})
		w.mu.Unlock()
		val, err := w.doAPI(c)
		w.mu.Lock()
		for i := range w.apiRes {
			r := &w.apiRes[i]
			if r.Thread == ti && r.Idx == ci {
				r.T0, r.T1, r.Err, r.Val, r.Done = t0, w.now(), err, val, true
			}
		}
		es := ""
		if err != nil {
			es = "err:" + err.Error()
		}
		w.addEvent(Event{Kind: "api-ret", Proc: c.Name, Inst: ti, Data: c.String() + " " + es, Flag: err != nil, Alive: w.aliveKeysLocked()})
		w.mu.Unlock()
	}
	w.mu.Lock()
	w.apiLeft--
	w.mu.Unlock()
}

func (w *World) doAPI(c APICall) (string, error) {
	r := w.Runner
	switch c.Op {
	case "start":
		return "", r.StartProcess(c.Name)
	case "stop":
		return "", r.StopProcess(c.Name)
	case "restart":
		return "", r.RestartProcess(c.Name)
	case "scale":
		return "", r.ScaleProcess(c.Name, c.N)
	case "shutdown":
		return "", r.ShutDownProject()
	case "update":
		p, err := w.LoadYAML(fmt.Sprintf("update-%d.yaml", len(w.trace)), c.YAML)
		if err != nil {
			return "", fmt.Errorf("harness: update project does not load: %w", err)
		}
		m, err := r.UpdateProject(p)
		return fmt.Sprint(sortedMap(m)), err
	case "states":
		st, err := r.GetProcessesState()
		if err != nil {
			return "", err
		}
		return fmt.Sprint(len(st.States)), nil
	case "fn":
		return c.Fn(w)
	}
	panic("harness: unknown api op " + c.Op)
}

func sortedMap(m map[string]string) []string {
	var s []string
	for k, v := range m {
		s = append(s, k+"="+v)
	}
	sort.Strings(s)
	return s
}

func (w *World) nextChoice(prefix []int, cp ChoicePoint) int {
	i := len(w.Points)
	c := 0
	if i < len(prefix) {
		c = prefix[i]
		if c < 0 || c >= cp.N {
			panic(fmt.Sprintf("REPLAY-DIVERGENCE: choice %d out of range at point %d (%d options %v)", c, i, cp.N, cp.Labels))
		}
	}
	cp.Chosen = c
	w.Points = append(w.Points, cp)
	return c
}

func (w *World) mix(s string) {
	h := fnv.New64a()
	var b [8]byte
	for i := 0; i < 8; i++ {
		b[i] = byte(w.grantHash >> (8 * i))
	}
	h.Write(b[:])
	h.Write([]byte(s))
	w.grantHash = h.Sum64()
}

// control is the explorer loop of one execution.
func (w *World) control(prefix []int) {
	sc := w.sc
	s := w.sched
	horizon := sc.Horizon // hard stop (activity may still be going on: outcome "cutoff")
	if horizon == 0 {
		horizon = 600 * time.Second
	}
	w.idleH = sc.Idle // nothing moved for this long: nothing ever will (outcome "stuck")
	if w.idleH == 0 {
		w.idleH = 40 * time.Second
	}
	var running *vrt.Thread
	idle := 0
	for {
		synctest.Wait()
		threads := s.Collect()
		var thr []*vrt.Thread
		var envThr []*vrt.Thread
		for _, t := range threads {
			if !t.IsEnabled() {
				continue
			}
			if t.Pending().Env {
				envThr = append(envThr, t)
			} else {
				thr = append(thr, t)
			}
		}
		// canonical thread order: the running thread first, then cyclic by id after it
		if running != nil {
			sort.SliceStable(thr, func(i, j int) bool {
				ki := (thr[i].ID - running.ID + len(threads)) % len(threads)
				kj := (thr[j].ID - running.ID + len(threads)) % len(threads)
				return ki < kj
			})
		}
		evs := w.fakeEvents()
		quiescent := len(thr) == 0
		w.noteState(threads, evs, quiescent)
		nEnv := len(evs) + len(envThr)
		if quiescent && sc.Snap {
			if sn := w.TakeSnapshot(); sn != nil {
				w.Snapshots = append(w.Snapshots, *sn)
			}
		}
		if quiescent && nEnv == 0 {
			// nothing can move but time
			if w.finished() && idle >= 2 {
				w.Outcome = "completed"
				return
			}
			if w.now()-w.lastAct >= w.idleH {
				w.classifyStuck(threads, false)
				return
			}
			// at the horizon with something still alive the execution is cut off; when no command is alive
			// any more it goes on until it is idle (outcome "stuck": the final oracles can judge it) or, if
			// timers keep it busy, until a little later
			if w.now() >= horizon && (w.anyAlive() || w.now() >= horizon+w.idleH+20*time.Second) {
				w.classifyStuck(threads, true)
				return
			}
			time.Sleep(quantum)
			idle++
			continue
		}
		idle = 0
		if w.now() >= horizon {
			w.classifyStuck(threads, true)
			return
		}
		runningEnabled := running != nil && len(thr) > 0 && thr[0] == running
		var cp ChoicePoint
		add := func(label string, cost int) {
			cp.Labels = append(cp.Labels, label)
			cp.Costs = append(cp.Costs, cost)
			cp.N++
		}
		for i, t := range thr {
			cost := 1
			if i == 0 || (sc.FreeSwitch && !runningEnabled) {
				cost = 0
			}
			op := t.Pending()
			add(fmt.Sprintf("t%d:%s:%s#%d", t.ID, op.Kind, op.Tag, s.ObjOrd(op.Obj)), cost)
		}
		envCost := 1
		if quiescent {
			envCost = sc.EnvCost
		}
		for i, e := range evs {
			c := envCost
			if quiescent && i == 0 {
				c = 0 // the default choice is always free
			}
			add(e.label, c)
		}
		for _, t := range envThr {
			add(t.Pending().Kind+":"+t.Pending().Tag, envCost)
		}
		canTick := w.now() < horizon && w.ticksUsed < sc.TickBudget
		if canTick {
			add("tick", envCost)
		}
		c := w.nextChoice(prefix, cp)
		w.Steps++
		w.mix(cp.Labels[c])
		if c < cp.N-1 || !canTick {
			w.lastAct = w.now()
		}
		switch {
		case c < len(thr):
			t := thr[c]
			if t.Pending().Kind == "maporder" {
				op := t.Pending()
				n := vrt.NumPerms(op.N)
				pc := ChoicePoint{N: n}
				for i := 0; i < n; i++ {
					pc.Labels = append(pc.Labels, fmt.Sprintf("perm%d:%s", i, op.Tag))
					cst := 1
					if i == 0 {
						cst = 0
					}
					pc.Costs = append(pc.Costs, cst)
				}
				op.Choice = w.nextChoice(prefix, pc)
			}
			running = t
			s.Grant(t)
		case c < len(thr)+len(evs):
			evs[c-len(thr)].fire()
		case c < len(thr)+len(evs)+len(envThr):
			t := envThr[c-len(thr)-len(evs)]
			running = t
			s.Grant(t)
		default:
			w.ticksUsed++
			w.tick(horizon)
		}
	}
}

// tick advances virtual time until something becomes enabled (or the horizon).
func (w *World) tick(horizon time.Duration) {
	s := w.sched
	before := len(w.fakeEvents())
	for w.now() < horizon && w.now()-w.lastAct < w.idleH {
		time.Sleep(quantum)
		synctest.Wait()
		for _, t := range s.Collect() {
			if t.IsEnabled() && !t.Pending().Env {
				return
			}
		}
		if len(w.fakeEvents()) != before {
			return
		}
	}
}

func (w *World) finished() bool {
	w.mu.Lock()
	defer w.mu.Unlock()
	if !w.RunDone || w.apiLeft > 0 {
		return false
	}
	for _, st := range w.lastStat {
		if st == "Restarting" {
			return false // a back-off is being waited out: the supervisor is going to launch a command
		}
	}
	for _, f := range w.procs {
		if f.Alive() {
			return false
		}
	}
	return true
}

func (w *World) classifyStuck(threads []*vrt.Thread, cutoff bool) {
	if w.finished() {
		w.Outcome = "completed"
		return
	}
	w.Outcome = "stuck"
	if cutoff {
		w.Outcome = "cutoff"
	}
	// a thread that waits for a mutex at the idle horizon waits forever: deadlock
	for _, t := range threads {
		if op := t.Pending(); op != nil && !t.IsEnabled() && !cutoff && (op.Kind == "lock" || op.Kind == "rlock") {
			w.Outcome = "deadlock"
		}
	}
	for _, t := range threads {
		if op := t.Pending(); op != nil && !t.IsEnabled() {
			w.Blocked = append(w.Blocked, fmt.Sprintf("t%d[%s] %s:%s", t.ID, t.Label, op.Kind, op.Tag))
		}
	}
	if wantStacks {
		w.Extra["stacks"] = bubbleStacks()
	}
}

// cleanup ends an execution whose processes are still alive at the horizon (or
// whose Run() has not returned): from here on the trace is marked and monitors
// ignore it. A helper thread requests a project shutdown, fake processes die
// at once when signalled, and everything is run with the default policy.
func (w *World) cleanup() {
	if w.Outcome == "completed" || w.Runner == nil {
		return
	}
	w.mu.Lock()
	w.cleaning = true
	w.addEvent(Event{Kind: "cleanup"})
	w.mu.Unlock()
	if w.Outcome == "deadlock" {
		return
	}
	// requests that were in flight at the end of the observed part may still start
	// processes: shut down until nothing is alive any more
	for i := 0; i < 4; i++ {
		go func() {
			vrt.Yield("cleanup")
			_ = w.Runner.ShutDownProject()
		}()
		w.runDefault(1500)
		if !w.anyAlive() {
			break
		}
	}
}

// runDefault grants enabled threads (lowest id first), fires pending
// environment events and advances time until nothing moves any more.
func (w *World) runDefault(maxRounds int) {
	s := w.sched
	idle := 0
	for round := 0; round < maxRounds && idle < 3; round++ {
		synctest.Wait()
		dbgRounds++
		moved := false
		for _, t := range s.Collect() {
			if t.IsEnabled() {
				if dbgBusy && round == 1000 {
					fmt.Fprintf(os.Stderr, "LEAKDUMP busy drain: outcome=%s granting %s %s:%s\n%s\n", w.Outcome, t.Key, t.Pending().Kind, t.Pending().Tag, strings.Join(traceStrings(w), "\n"))
					dbgBusy = false
				}
				s.Grant(t)
				moved = true
				break
			}
		}
		if moved {
			idle = 0
			continue
		}
		if evs := w.fakeEvents(); len(evs) > 0 {
			evs[0].fire()
			idle = 0
			continue
		}
		time.Sleep(45 * time.Second)
		idle++
	}
}

// drain lets everything that can still run finish, so the bubble can end.
func (w *World) drain() {
	w.mu.Lock()
	w.cleaning = true
	w.mu.Unlock()
	w.runDefault(3000)
}

// noteState counts distinct abstract states at choice points (coverage only).
func (w *World) noteState(threads []*vrt.Thread, evs []envEvent, quiescent bool) {
	h := fnv.New64a()
	var dbg *strings.Builder
	if stateDump != nil {
		dbg = &strings.Builder{}
	}
	for _, t := range threads {
		if op := t.Pending(); op != nil {
			fmt.Fprintf(h, "%s|%s|%s|%v;", t.Key, op.Kind, op.Tag, t.IsEnabled())
			if dbg != nil {
				fmt.Fprintf(dbg, "%s|%s|%s|%v;", t.Key, op.Kind, op.Tag, t.IsEnabled())
			}
		}
	}
	for _, e := range evs {
		h.Write([]byte(e.label))
	}
	w.mu.Lock()
	last := w.lastStat
	defer w.mu.Unlock()
	keys := make([]string, 0, len(last))
	for k := range last {
		keys = append(keys, k)
	}
	sort.Strings(keys)
	for _, k := range keys {
		fmt.Fprintf(h, "%s=%s;", k, last[k])
	}
	if dbg != nil {
		for _, e := range evs {
			dbg.WriteString(e.label)
		}
		for _, k := range keys {
			fmt.Fprintf(dbg, "%s=%s;", k, last[k])
		}
		stateDump[dbg.String()] = true
	}
	w.states[h.Sum64()] = true
}

// TakeSnapshot calls GetProcessesState() from the controller; only legal when
// no shim mutex is held by a parked goroutine.
func (w *World) TakeSnapshot() *Snapshot {
	if w.sched.Held != 0 || w.Runner == nil {
		return nil
	}
	st, err := w.Runner.GetProcessesState()
	if err != nil {
		return nil
	}
	sn := Snapshot{T: w.now(), Step: w.Steps, States: map[string]types.ProcessState{}}
	for _, s := range st.States {
		sn.States[s.Name] = s
	}
	w.mu.Lock()
	sn.Alive = w.liveCountLocked()
	sn.Pos = len(w.trace)
	w.mu.Unlock()
	return &sn
}

func bubbleStacks() string {
	buf := make([]byte, 1<<20)
	n := runtime.Stack(buf, true)
	var out []string
	for _, g := range strings.Split(string(buf[:n]), "\n\n") {
		if strings.Contains(g, "synctest") && strings.Contains(g, "process-compose/src/") {
			// keep the header and the repository frames
			lines := strings.Split(g, "\n")
			keep := []string{lines[0]}
			for _, l := range lines[1:] {
				if strings.Contains(l, "process-compose/src/") && !strings.HasPrefix(l, "\t") && !strings.Contains(l, "/vrt") {
					keep = append(keep, "  "+l)
				}
			}
			out = append(out, strings.Join(keep, "\n"))
		}
	}
	return strings.Join(out, "\n")
}

// preEndT is the virtual time at which the observed part of the execution ended.
func (w *World) preEndT() time.Duration {
	for _, e := range w.trace {
		if e.Kind == "cleanup" {
			return e.T
		}
	}
	return 1 << 62
}

// bubbleStacksAll returns the stacks of all goroutines of the current bubble except the caller.
func bubbleStacksAll() string {
	buf := make([]byte, 1<<20)
	n := runtime.Stack(buf, true)
	var out []string
	for i, g := range strings.Split(string(buf[:n]), "\n\n") {
		if i == 0 || !strings.Contains(g, "synctest bubble") {
			continue
		}
		if strings.Contains(g, "[running") {
			continue
		}
		out = append(out, g)
	}
	return strings.Join(out, "\n\n")
}
