package vh

// C03 Shutdown completeness: after shutdown returns nothing runs and nothing starts.

import (
	"fmt"
	"strings"
	"time"
)

func init() { registry["C03"] = &propDef{e1: c03Scenarios} }

func c03Scenarios(tier string) []*Scenario {
	k := 1
	if tier == "thorough" {
		k = 2
	}
	var scs []*Scenario
	add := func(id, note string, yaml string, procs map[string]*ProcScript, ticks int, api ...[]APICall) *Scenario {
		sc := &Scenario{ID: "c03-" + id, Note: note, YAML: yaml, Procs: procs, K: k, TickBudget: ticks, API: api}
		sc.Check = c03Check
		scs = append(scs, sc)
		return sc
	}
	shut := []APICall{{Op: "shutdown"}}
	daemon := &ProcScript{}
	// 1. single running process
	add("single", "one long-running process", projectYAML(nil, PC{Name: "a"}), map[string]*ProcScript{"a": daemon}, 1, shut)
	// 2. dependent pending on a running dependency
	for _, cond := range []string{"process_completed", "process_completed_successfully", "process_started"} {
		add("pending-"+cond, "b waits for a ("+cond+"), a keeps running",
			projectYAML(nil, PC{Name: "a"}, PC{Name: "b", Deps: map[string]string{"a": cond}}),
			map[string]*ProcScript{"a": daemon, "b": daemon}, 1, shut)
	}
	// 3. dependency about to exit: the dependent is released around the shutdown
	for _, code := range []int{0, 1} {
		add(fmt.Sprintf("release-%d", code), "a exits, b (completed) is about to be launched",
			projectYAML(nil, PC{Name: "a"}, PC{Name: "b", Deps: map[string]string{"a": "process_completed"}}),
			map[string]*ProcScript{"a": {Launches: exits(code)}, "b": daemon}, 1, shut)
	}
	add("release-succ", "a exits 0, b (completed_successfully) is about to be launched",
		projectYAML(nil, PC{Name: "a"}, PC{Name: "b", Deps: map[string]string{"a": "process_completed_successfully"}}),
		map[string]*ProcScript{"a": {Launches: exits(0)}, "b": daemon}, 1, shut)
	// 4. process between restarts
	for _, bo := range []int{0, 2} {
		add(fmt.Sprintf("backoff-%d", bo), "a (always) exits and is in back-off",
			projectYAML(nil, PC{Name: "a", Restart: "always", Backoff: bo}),
			map[string]*ProcScript{"a": {Launches: [][]Action{{Exit(1)}, {}}}}, 2, shut)
	}
	// 5. SIGTERM-ignoring process with a kill time-out
	add("ignore-term", "a ignores SIGTERM, shutdown.timeout_seconds 2",
		projectYAML(nil, PC{Name: "a", Lines: []string{"shutdown:", "  timeout_seconds: 2"}}),
		map[string]*ProcScript{"a": {OnTerm: "ignore"}}, 2, shut)
	// 6. chain of two running processes
	add("chain", "b depends on a (started), both running",
		projectYAML(nil, PC{Name: "a"}, PC{Name: "b", Deps: map[string]string{"a": "process_started"}}),
		map[string]*ProcScript{"a": daemon, "b": daemon}, 1, shut)
	// 7. two concurrent shutdown requests
	add("double", "two concurrent ShutDownProject calls", projectYAML(nil, PC{Name: "a"}, PC{Name: "b"}),
		map[string]*ProcScript{"a": daemon, "b": daemon}, 1, shut, shut)
	// 8. exit_on_* trigger while an API shutdown is in flight
	add("trigger-eof", "a (exit_on_failure) exits 1 while the API shutdown may be in flight",
		projectYAML(nil, PC{Name: "a", Restart: "exit_on_failure"}, PC{Name: "b"}),
		map[string]*ProcScript{"a": {Launches: exits(1)}, "b": daemon}, 1, shut)
	add("trigger-eoe", "a (exit_on_end) exits 0 while the API shutdown may be in flight",
		projectYAML(nil, PC{Name: "a", ExitOnEnd: true}, PC{Name: "b"}),
		map[string]*ProcScript{"a": {Launches: exits(0)}, "b": daemon}, 1, shut)
	// 9. shutdown triggered only by exit_on_failure (no API call), with a dependent about to start
	add("trigger-only", "a (exit_on_failure) exits 1; c waits for b",
		projectYAML(nil, PC{Name: "a", Restart: "exit_on_failure"}, PC{Name: "b"}, PC{Name: "c", Deps: map[string]string{"b": "process_completed"}}),
		map[string]*ProcScript{"a": {Launches: exits(1)}, "b": {Launches: exits(0)}, "c": daemon}, 1)
	// 10. a process that finished once, is started again by hand and waits for its (restarted) dependency
	for _, cond := range []string{"process_completed", "process_completed_successfully"} {
		bothDone := func(w *World) bool { return w.lastStat["d"] == "Completed" && w.lastStat["b"] == "Completed" }
		dUp := func(w *World) bool { return w.launches["d#0"] >= 2 }
		add("restarted-waits-"+cond, "d and b completed; d and then b are started again by hand, b waits for d; shutdown arrives",
			projectYAML(nil, PC{Name: "d"}, PC{Name: "b", Deps: map[string]string{"d": cond}}),
			map[string]*ProcScript{"d": {Launches: [][]Action{{Exit(0)}, {}}}, "b": {Launches: [][]Action{{Exit(0)}, {}}}}, 1,
			[]APICall{{Op: "start", Name: "d", When: bothDone}, {Op: "start", Name: "b", When: dUp}, {Op: "shutdown"}})
	}
	// 11. a process restarted through the API while it is in back-off
	add("api-restart-then-shutdown", "a is restarted by hand, then the project is shut down",
		projectYAML(nil, PC{Name: "a", Restart: "on_failure", Backoff: 1}),
		map[string]*ProcScript{"a": {Launches: [][]Action{{Exit(1)}, {}}}}, 2,
		[]APICall{{Op: "restart", Name: "a", When: func(w *World) bool { return w.launches["a#0"] >= 1 }}, {Op: "shutdown"}})
	// 12. a process that is already being stopped (stop requested, the command has not died yet)
	{
		terminating := func(w *World) bool { return w.lastStat["a"] == "Terminating" }
		for _, ordered := range []bool{false, true} {
			id := "already-stopping"
			if ordered {
				id += "-ordered"
			}
			sc := add(id, "a was asked to stop and is still dying when the shutdown arrives",
				projectYAML(nil, PC{Name: "a"}, PC{Name: "b", Deps: map[string]string{"a": "process_started"}}),
				map[string]*ProcScript{"a": daemon, "b": daemon}, 1,
				[]APICall{{Op: "stop", Name: "a"}}, []APICall{{Op: "shutdown", When: terminating}})
			sc.Ordered = ordered
			sc = add(id+"-ignore-term", "a ignores SIGTERM (kill after 2 s), was asked to stop and is still alive when the shutdown arrives",
				projectYAML(nil, PC{Name: "a", Lines: []string{"shutdown:", "  timeout_seconds: 2"}}),
				map[string]*ProcScript{"a": {OnTerm: "ignore"}}, 2,
				[]APICall{{Op: "stop", Name: "a"}}, []APICall{{Op: "shutdown", When: terminating}})
			sc.Ordered = ordered
		}
	}
	// 13. a configured shutdown command that fails or hangs: the process is killed all the same
	for _, beh := range []string{"fail", "hang"} {
		for _, ordered := range []bool{false, true} {
			id := "stop-command-" + beh
			if ordered {
				id += "-ordered"
			}
			sc := add(id, "a has a shutdown.command that "+beh+"s (time-out 2 s); b depends on a",
				projectYAML(nil, PC{Name: "a", Lines: []string{"shutdown:", "  command: \"stop-a\"", "  timeout_seconds: 2"}},
					PC{Name: "b", Deps: map[string]string{"a": "process_started"}}),
				map[string]*ProcScript{"a": daemon, "b": daemon}, 2, shut)
			sc.Aux = map[string][]string{"stop-a": {beh}}
			sc.Ordered = ordered
		}
	}
	// 14. shutdown.signal outside the range of signal numbers: SIGTERM is used instead
	for _, sg := range []int{99, -3} {
		add(fmt.Sprintf("signal-%d", sg), fmt.Sprintf("a is configured with shutdown.signal %d", sg),
			projectYAML(nil, PC{Name: "a", Lines: []string{"shutdown:", fmt.Sprintf("  signal: %d", sg)}}, PC{Name: "b"}),
			map[string]*ProcScript{"a": daemon, "b": daemon}, 1, shut)
	}
	// 15. a daemon (launcher exited, reported Launched) with a stop command and a readiness probe that has not
	// succeeded yet, while another process waits for it with process_healthy
	for _, ordered := range []bool{false, true} {
		id := "daemon-awaited-healthy"
		if ordered {
			id += "-ordered"
		}
		launchedA := func(w *World) bool { return w.lastStat["a"] == "Launched" }
		sc := add(id, "daemon a (stop command, readiness probe still failing) is awaited by b (process_healthy) when the shutdown arrives",
			projectYAML(nil, PC{Name: "a", Lines: []string{"is_daemon: true", "shutdown:", "  command: \"stop-a\"", "  timeout_seconds: 2",
				"readiness_probe:", "  exec:", "    command: \"probe-ready-a\"", "  period_seconds: 1", "  failure_threshold: 30"}},
				PC{Name: "b", Deps: map[string]string{"a": "process_healthy"}}),
			map[string]*ProcScript{"a": {Launches: exits(0)}, "b": daemon}, 2, []APICall{{Op: "shutdown", When: launchedA}})
		sc.Aux = map[string][]string{"stop-a": {"ok"}, "probe-ready-a": {"fail"}}
		sc.Ordered = ordered
		sc.Horizon = 30 * time.Second
	}
	// 16. a start request for a process that has an instance but no command (back-off, pending), then the shutdown
	{
		restarting := func(w *World) bool { return w.lastStat["a"] == "Restarting" }
		add("start-in-backoff", "a (always, back-off 2 s) has exited; a start request arrives during the back-off, then the shutdown",
			projectYAML(nil, PC{Name: "a", Restart: "always", Backoff: 2}, PC{Name: "x"}),
			map[string]*ProcScript{"a": {Launches: [][]Action{{Exit(1)}, {}}}, "x": daemon}, 3,
			[]APICall{{Op: "start", Name: "a", When: restarting}, {Op: "shutdown"}})
		dUp := func(w *World) bool { return w.launches["d#0"] > 0 }
		add("start-while-pending", "a waits for d (completed); a start request for a arrives, then the shutdown",
			projectYAML(nil, PC{Name: "d"}, PC{Name: "a", Deps: map[string]string{"d": "process_completed"}}),
			map[string]*ProcScript{"d": daemon, "a": daemon}, 1,
			[]APICall{{Op: "start", Name: "a", When: dUp}, {Op: "shutdown"}})
	}
	// 17. a daemon whose launcher is still running (reported Launching) when the shutdown arrives: the launcher
	// is a command like any other and has to be stopped; nothing of it may survive the shutdown
	for _, stopCmd := range []bool{false, true} {
		for _, ordered := range []bool{false, true} {
			id := "daemon-launching"
			lines := []string{"is_daemon: true"}
			if stopCmd {
				id += "-stopcmd"
				lines = append(lines, "shutdown:", "  command: \"stop-a\"", "  timeout_seconds: 2")
			}
			if ordered {
				id += "-ordered"
			}
			launchingA := func(w *World) bool { return w.lastStat["a"] == "Launching" }
			sc := add(id, "daemon a is still Launching (its launcher runs until it is signalled) when the shutdown arrives; b runs next to it",
				projectYAML(nil, PC{Name: "a", Lines: lines}, PC{Name: "b"}),
				map[string]*ProcScript{"a": daemon, "b": daemon}, 2, []APICall{{Op: "shutdown", When: launchingA}})
			if stopCmd {
				// the stop command does its job: it ends the launcher (one that returns without stopping anything
				// leaves process-compose waiting, which is what a stop command is documented to replace)
				sc.Aux = map[string][]string{"stop-a": {"ok"}}
				sc.AuxEffect = map[string]string{"stop-a": "kill:a"}
			}
			sc.Ordered = ordered
		}
	}
	if tier == "thorough" {
		add("three", "three independent processes, one restarting", projectYAML(nil, PC{Name: "a"}, PC{Name: "b", Restart: "always"}, PC{Name: "c", Deps: map[string]string{"a": "process_started"}}),
			map[string]*ProcScript{"a": daemon, "b": {Launches: [][]Action{{Exit(0)}, {}}}, "c": daemon}, 2, shut)
	}
	return scs
}

func c03Check(w *World) []Violation {
	var vs []Violation
	tr := w.pre()
	// successful shutdown calls: request and return positions
	type call struct{ req, ret int }
	var calls []call
	open := map[int]int{}
	for i, e := range tr {
		if e.Kind == "api-call" && strings.HasPrefix(e.Data, "shutdown") {
			open[e.Inst] = i
		}
		if e.Kind == "api-ret" && strings.HasPrefix(e.Data, "shutdown") {
			calls = append(calls, call{open[e.Inst], i})
			delete(open, e.Inst)
		}
	}
	explicitStart := func(from, to int) bool {
		for i := from; i < to; i++ {
			if tr[i].Kind == "api-call" && (strings.HasPrefix(tr[i].Data, "start") || strings.HasPrefix(tr[i].Data, "restart") ||
				strings.HasPrefix(tr[i].Data, "scale") || strings.HasPrefix(tr[i].Data, "update")) {
				return true
			}
		}
		return false
	}
	// phase of a process at the time of a shutdown request; "unregistered" when
	// the call did not touch the process at all (no state change between request and return)
	phase := func(c call, name string) string {
		st := statusAt(tr, name, c.req)
		if st == "Pending" {
			touched := false
			for i := c.req; i <= c.ret && i < len(tr); i++ {
				if tr[i].Kind == "state" && tr[i].Proc == name {
					touched = true
				}
			}
			if !touched {
				return "unregistered"
			}
		}
		return st
	}
	for _, c := range calls {
		ret := tr[c.ret]
		for _, key := range ret.Alive {
			vs = append(vs, viol("C03", "alive-after-shutdown:"+phase(c, baseOf(key)),
				"command %s is still alive when ShutDownProject returns", key))
		}
		for i := c.ret + 1; i < len(tr); i++ {
			if tr[i].Kind == "start" && !explicitStart(c.ret, i) {
				vs = append(vs, viol("C03", "start-after-shutdown:"+phase(c, baseOf(tr[i].Proc)),
					"command %s launched after ShutDownProject had returned", tr[i].Proc))
				break
			}
		}
	}
	requested := len(calls) > 0 || len(open) > 0
	// the symptoms below are consequences when a command was launched after / survived
	// the shutdown: report the primary violation only
	primary := len(vs) > 0
	if len(open) > 0 && (w.Outcome == "stuck" || w.Outcome == "deadlock") {
		vs = append(vs, viol("C03", "shutdown-blocked:"+blockedKinds(w, "api"), "ShutDownProject did not return (outcome %s; blocked: %v)", w.Outcome, w.Blocked))
	}
	if requested && !w.sc.NoRun {
		ri := findEvent(tr, 0, func(e Event) bool { return e.Kind == "run-ret" })
		if ri < 0 && (w.Outcome == "stuck" || w.Outcome == "deadlock") && len(open) == 0 && !primary {
			vs = append(vs, viol("C03", "run-not-returned", "Run() did not return after the shutdown (outcome %s; blocked: %v)", w.Outcome, w.Blocked))
		}
	}
	// reported state after the last successful shutdown
	if len(calls) > 0 && w.Final != nil && len(open) == 0 && !primary {
		for name, st := range w.Final.States {
			if st.IsRunning || st.Status == "Running" || st.Status == "Launched" || st.Status == "Launching" {
				// only a violation if nothing was explicitly started afterwards
				if !explicitStart(calls[len(calls)-1].ret, len(tr)) {
					vs = append(vs, viol("C03", "reported-running:"+st.Status, "process %s is reported %s/is_running=%v after the shutdown returned", name, st.Status, st.IsRunning))
				}
			}
		}
	}
	// Run() must never return while a launched command is alive (shared with C04)
	if ri := findEvent(tr, 0, func(e Event) bool { return e.Kind == "run-ret" }); ri >= 0 && len(tr[ri].Alive) > 0 && requested {
		vs = append(vs, viol("C03", "run-returned-alive", "Run() returned while %v alive", tr[ri].Alive))
	}
	return vs
}

// blockedKinds summarises the parked operations of blocked threads whose label contains sub.
func blockedKinds(w *World, sub string) string {
	var ks []string
	for _, b := range w.Blocked {
		if strings.Contains(b, sub) {
			f := strings.Fields(b)
			ks = append(ks, strings.SplitN(f[len(f)-1], ":", 2)[0])
		}
	}
	sortStrings(ks)
	if len(ks) == 0 {
		return "raw"
	}
	return strings.Join(ks, "+")
}
