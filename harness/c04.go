package vh

// C04 Project completion: Run() ends when all are terminal, with the right exit code.

import (
	"fmt"
	"strings"
)

func init() { registry["C04"] = &propDef{e1: c04Scenarios} }

func (g *gcfg) c04Check(w *World) []Violation {
	var vs []Violation
	tr := w.pre()
	ri := findEvent(tr, 0, func(e Event) bool { return e.Kind == "run-ret" })
	if ri >= 0 && len(tr[ri].Alive) > 0 {
		vs = append(vs, viol("C04", "run-returned-early", "Run() returned while %v still alive", tr[ri].Alive))
	}
	// hang: nothing alive, nothing pending in the environment, Run() not returned
	if ri < 0 && (w.Outcome == "stuck" || w.Outcome == "cutoff") {
		alive := false
		for _, f := range w.procs {
			if f.started && (!f.exited || f.inCleanup) {
				alive = true
			}
		}
		if w.Outcome == "cutoff" {
			// cut off at the horizon rather than idle: only a verdict when nothing could happen any more - no
			// command alive and every process either terminal or still Pending (no back-off or stop in progress)
			for name := range g.nodes {
				if st := statusAt(tr, name, len(tr)); !isTerminal(st) && st != "Pending" && st != "Disabled" {
					alive = true
				}
			}
		}
		if !alive {
			sig := "hang:none"
			msg := ""
			for name, n := range g.nodes {
				st := statusAt(tr, name, len(tr))
				if st != "Pending" {
					continue
				}
				if sig == "hang:none" {
					for d, c := range n.Deps {
						sig = "hang:released-but-pending:" + c + ":" + howEnded(tr, d)
						msg += fmt.Sprintf(" %s is Pending although %s met %s;", name, d, c)
					}
				}
				for d, c := range n.Deps {
					if !g.sat(tr, len(tr), d, c, 0) {
						s := "hang:" + c + ":" + howEnded(tr, d)
						if strings.HasPrefix(sig, "hang:none") || strings.HasPrefix(sig, "hang:released") || s < sig {
							sig = s
						}
						msg += fmt.Sprintf(" %s waits for %s (%s, dependency %s/%s);", name, d, c, statusAt(tr, d, len(tr)), howEnded(tr, d))
					}
				}
			}
			vs = append(vs, viol("C04", sig, "Run() never returns although no command is alive and no event is pending:%s blocked: %v", msg, w.Blocked))
		}
	}
	if ri < 0 {
		// a trigger fired but the project was not brought down
		if w.Outcome == "stuck" {
			for _, e := range tr {
				n := g.nodes[baseOf(e.Proc)]
				if e.Kind == "exit" && !e.Flag && ((n.Restart == "exit_on_failure" && e.Code != 0) || n.ExitOnEnd) {
					kind := "exit_on_end"
					if !n.ExitOnEnd {
						kind = "exit_on_failure"
					}
					class := "positive"
					if e.Code < 0 {
						class = "signal"
					} else if e.Code == 0 {
						class = "zero"
					}
					vs = append(vs, viol("C04", "no-shutdown:"+kind+":"+class, "%s (%s) exited with code %d but the project keeps running", e.Proc, kind, e.Code))
					break
				}
			}
		}
		return vs
	}
	// exit code
	got := tr[ri].Code
	fired := map[int]string{}
	silent := map[int]bool{}
	victims := map[int]bool{}
	for i := 0; i < ri; i++ {
		e := tr[i]
		name := baseOf(e.Proc)
		switch e.Kind {
		case "exit":
			n := g.nodes[name]
			if e.Flag {
				victims[e.Code] = true
				continue
			}
			if n.ExitOnEnd {
				fired[e.Code] = name + ":exit_on_end"
			}
			if n.Restart == "exit_on_failure" && e.Code != 0 {
				fired[e.Code] = name + ":exit_on_failure"
			}
		case "startfail":
			n := g.nodes[name]
			if n.Restart == "exit_on_failure" || n.ExitOnEnd {
				silent[1] = true
			}
		case "state":
			n := g.nodes[e.Proc]
			if e.Data == "Skipped" && n.ExitOnSk {
				fired[1] = e.Proc + ":exit_on_skipped"
			}
			if e.Data == "Error" && (n.Restart == "exit_on_failure" || n.ExitOnEnd) {
				silent[1] = true
			}
		}
	}
	origin := func(code int) string {
		switch {
		case code == 0:
			return "nil"
		case victims[code]:
			return "victim"
		}
		return "other"
	}
	if len(fired) == 0 {
		if got != 0 && !silent[got] {
			vs = append(vs, viol("C04", "exit-code:none/"+origin(got), "Run() returned exit code %d although no exit_on_* rule fired", got))
		}
	} else {
		if _, ok := fired[got]; !ok && !silent[got] {
			var f []string
			for c, n := range fired {
				f = append(f, fmt.Sprintf("%s=%d", n, c))
			}
			sortStrings(f)
			vs = append(vs, viol("C04", "exit-code:trigger/"+origin(got), "Run() returned exit code %d; triggers that fired: %s", got, strings.Join(f, ",")))
		}
	}
	return vs
}

func c04Scenarios(tier string) []*Scenario {
	k := 1
	var scs []*Scenario
	add := func(nodes []GNode) *Scenario {
		sc := graphScenario("c04", nodes, k)
		g := newGcfg(nodes)
		sc.Check = g.c04Check
		scs = append(scs, sc)
		return sc
	}
	d := func(name string) GNode { return GNode{Name: name, Beh: "daemon"} }
	ok := func(name string) GNode { return GNode{Name: name, Beh: "ok"} }
	fail := func(name string, code int) GNode { return GNode{Name: name, Beh: "fail", Code: code} }
	// no trigger
	add([]GNode{ok("a"), fail("b", 5)})
	add([]GNode{ok("a"), withDeps(ok("b"), map[string]string{"a": cCompleted}), withDeps(fail("c", 7), map[string]string{"b": cSucc})})
	// one trigger
	eof := fail("a", 3)
	eof.Restart = "exit_on_failure"
	add([]GNode{eof, d("b")})
	add([]GNode{eof, ok("b"), d("c")})
	eoe := ok("a")
	eoe.ExitOnEnd = true
	add([]GNode{eoe, d("b")})
	eoe5 := fail("a", 5)
	eoe5.ExitOnEnd = true
	add([]GNode{eoe5, d("b"), withDeps(ok("c"), map[string]string{"b": cCompleted})})
	// exit_on_failure process that exits 0: no trigger
	eof0 := ok("a")
	eof0.Restart = "exit_on_failure"
	add([]GNode{eof0, ok("b")})
	// two triggers
	eofb := fail("b", 7)
	eofb.Restart = "exit_on_failure"
	add([]GNode{eof, eofb})
	add([]GNode{eof, eoe5b(), d("c")})
	// a victim that carries exit_on_end / exit_on_failure itself
	vic := d("b")
	vic.ExitOnEnd = true
	add([]GNode{eof, vic})
	vic2 := d("b")
	vic2.Restart = "exit_on_failure"
	add([]GNode{eof, vic2})
	add([]GNode{eof, vic, vic2c()})
	// an exit_on_failure process killed by a signal on its own (OOM kill, segfault): exit code -1 is non-zero
	{
		n := fail("a", -1)
		n.Restart = "exit_on_failure"
		add([]GNode{n, d("b")})
		add([]GNode{n, ok("b"), d("c")})
	}
	// a skipped process carries exit_on_end / exit_on_failure but not exit_on_skipped: being skipped is neither
	// an end nor a failure of a command, the project runs on and reports success
	for _, flag := range []string{"exit_on_end", "exit_on_failure", "both"} {
		sk := withDeps(ok("b"), map[string]string{"a": cSucc})
		sk.ExitOnEnd = flag != "exit_on_failure"
		if flag != "exit_on_end" {
			sk.Restart = "exit_on_failure"
		}
		add([]GNode{fail("a", 4), sk, ok("c")})
		add([]GNode{fail("a", 4), sk, withDeps(ok("c"), map[string]string{"b": cSucc}), d("e")})
	}
	// restart policy x exit_on_end x exit code on one process: the two rules are independent of each other
	for _, pol := range []string{"", "no", "exit_on_failure", "on_failure"} {
		for _, eoe := range []bool{false, true} {
			for _, code := range []int{0, 3, -1} {
				if pol == "on_failure" && code != 0 {
					continue // it is relaunched: it has not ended
				}
				n := ok("a")
				if code != 0 {
					n = fail("a", code)
				}
				n.Restart, n.ExitOnEnd = pol, eoe
				add([]GNode{n, d("b")})
			}
		}
	}
	// a process that is waited for with process_healthy / process_log_ready and never starts: skipped because
	// its own dependency failed, or still pending when an exit_on_failure trigger shuts the project down
	for _, cond := range []string{cHealthy, cLogReady} {
		a := depNodeFor("a", cond, "sat")
		a.Beh = "ok"
		a.Deps = map[string]string{"r": cSucc}
		add([]GNode{fail("r", 7), a, withDeps(ok("b"), map[string]string{"a": cond})})
		a2 := depNodeFor("a", cond, "sat")
		a2.Deps = map[string]string{"w": cCompleted}
		add([]GNode{eof, d("w"), a2, withDeps(ok("b"), map[string]string{"a": cond})})
	}
	// a disabled process started by hand is a victim like any other, with the default and the ordered shutdown
	for _, ordered := range []bool{false, true} {
		m := d("m")
		m.Disabled = true
		sc := add([]GNode{eof, d("b"), m})
		sc.Ordered = ordered
		if ordered {
			sc.ID += "-ordered"
		}
		mUp := func(w *World) bool { return w.launches["m#0"] > 0 }
		bUp := func(w *World) bool { return w.launches["b#0"] > 0 }
		sc.API = [][]APICall{{{Op: "start", Name: "m", When: bUp}}}
		sc.ID += "-start(m)"
		sc.Procs["a"].Hold = func(w *World, pc int) bool { return !mUp(w) }
	}
	// the victim is a daemon (its launcher has exited 0, it is reported Launched) with a shutdown command that
	// works, fails or hangs: the project still comes down with the trigger's code
	for _, beh := range []string{"ok", "fail", "hang"} {
		v := ok("v")
		v.Extra = []string{"is_daemon: true", "shutdown:", "  command: \"stop-v\"", "  timeout_seconds: 2"}
		sc := add([]GNode{eof, v})
		sc.ID += "-daemon-stopcmd-" + beh
		if sc.Aux == nil {
			sc.Aux = map[string][]string{}
		}
		sc.Aux["stop-v"] = []string{beh}
		sc.TickBudget = 3
		sc.Procs["a"].Hold = func(w *World, pc int) bool { return w.lastStat["v"] != "Launched" }
	}
	// the same daemon victim caught while its launcher is still running (Launching): the launcher exits only after
	// the stop has been requested
	{
		v := ok("v")
		v.Extra = []string{"is_daemon: true", "shutdown:", "  command: \"stop-v\"", "  timeout_seconds: 2"}
		sc := add([]GNode{eof, v})
		sc.ID += "-daemon-launching"
		if sc.Aux == nil {
			sc.Aux = map[string][]string{}
		}
		sc.Aux["stop-v"] = []string{"ok"}
		sc.TickBudget = 3
		sc.Procs["a"].Hold = func(w *World, pc int) bool { return w.launches["v#0"] == 0 }
		sc.Procs["v"].Hold = func(w *World, pc int) bool { return w.lastStat["v"] != "Terminating" }
	}
	// trigger kind x victim kind grid: the code must always be that of the trigger
	{
		trig := func(kind string) []GNode {
			switch kind {
			case "eof3":
				n := fail("a", 3)
				n.Restart = "exit_on_failure"
				return []GNode{n}
			case "eoe0":
				n := ok("a")
				n.ExitOnEnd = true
				return []GNode{n}
			case "eoe5":
				n := fail("a", 5)
				n.ExitOnEnd = true
				return []GNode{n}
			default: // "eos": a is skipped because r fails
				n := withDeps(ok("a"), map[string]string{"r": cSucc})
				n.ExitOnSk = true
				return []GNode{fail("r", 7), n}
			}
		}
		vict := func(kind string) []GNode {
			switch kind {
			case "eoe":
				n := d("v")
				n.ExitOnEnd = true
				return []GNode{n}
			case "eof":
				n := d("v")
				n.Restart = "exit_on_failure"
				return []GNode{n}
			case "eos":
				// a pending dependent that is skipped by the shutdown of its dependency
				n := withDeps(ok("v"), map[string]string{"w": cSucc})
				n.ExitOnSk = true
				return []GNode{d("w"), n}
			case "eos-healthy":
				n := withDeps(ok("v"), map[string]string{"w": cLogReady})
				n.ExitOnSk = true
				wn := d("w")
				wn.ReadyLine = true
				return []GNode{wn, n}
			}
			return []GNode{d("v")}
		}
		for _, tk := range []string{"eof3", "eoe0", "eoe5", "eos"} {
			for _, vk := range []string{"plain", "eoe", "eof", "eos", "eos-healthy"} {
				add(append(trig(tk), vict(vk)...))
			}
		}
	}
	// exit_on_skipped
	sk := withDeps(ok("b"), map[string]string{"a": cSucc})
	sk.ExitOnSk = true
	add([]GNode{fail("a", 3), sk, d("c")})
	// start failures with triggers
	sf := GNode{Name: "a", Beh: "startfail", Restart: "exit_on_failure"}
	add([]GNode{sf, d("b")})
	bdn := GNode{Name: "a", Beh: "baddir", ExitOnEnd: true}
	add([]GNode{bdn, d("b")})
	// hang shapes: a dependent that can no longer start
	for _, c := range allConds {
		// dependency is skipped
		root := fail("a", 3)
		mid := withDeps(depNodeFor("b", c, "sat"), map[string]string{"a": cSucc})
		add([]GNode{root, mid, withDeps(ok("c"), map[string]string{"b": c})})
		// dependency fails to start
		sfd := depNodeFor("a", c, "sat")
		sfd.Beh = "startfail"
		sfd.PrintsRdy = false
		add([]GNode{sfd, withDeps(ok("b"), map[string]string{"a": c})})
		// dependency has a bad working directory
		bd := depNodeFor("a", c, "sat")
		bd.Beh = "baddir"
		bd.PrintsRdy = false
		add([]GNode{bd, withDeps(ok("b"), map[string]string{"a": c})})
		// dependency ends without becoming ready
		add([]GNode{depNodeFor("a", c, "unsat"), withDeps(ok("b"), map[string]string{"a": c})})
	}
	if tier == "thorough" {
		for _, sc := range scs {
			if len(sc.Procs) <= 2 && sc.Horizon == 0 {
				sc.K = 2
			}
		}
	}
	return scs
}

func eoe5b() GNode {
	n := GNode{Name: "b", Beh: "fail", Code: 5, ExitOnEnd: true}
	return n
}

func vic2c() GNode {
	return GNode{Name: "c", Beh: "daemon", Restart: "exit_on_failure"}
}
