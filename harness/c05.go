package vh

// C05 Unsatisfiable dependency => dependent is skipped, transitively, never launched.

import "strings"

func init() { registry["C05"] = &propDef{e1: c05Scenarios} }

// howEnded classifies the way a dependency reached its terminal state.
func howEnded(tr []Event, dep string) string {
	key := key0(dep)
	res := ""
	stopReq := false
	for _, e := range tr {
		switch {
		case e.Kind == "api-call" && (e.Data == "stop("+dep+")"):
			stopReq = true
		case e.Kind == "startfail" && e.Proc == key:
			res = "startfail"
		case e.Kind == "exit" && e.Proc == key:
			switch {
			case e.Flag && stopReq:
				res = "stopped"
			case e.Flag:
				res = "killed"
			case e.Code != 0:
				res = "exit-nonzero"
			default:
				res = "exit-zero-not-ready"
			}
		case e.Kind == "state" && e.Proc == dep:
			switch e.Data {
			case "Skipped":
				res = "skipped"
			case "Error":
				if res == "" {
					res = "error"
				}
			case "Terminating":
				if res == "" && stopReq {
					res = "stopped-pending"
				}
			}
		}
	}
	if res == "" {
		res = "none"
	}
	return res
}

func isTerminal(st string) bool {
	return st == "Completed" || st == "Skipped" || st == "Error"
}

func (g *gcfg) c05Check(w *World) []Violation {
	var vs []Violation
	tr := w.pre()
	if w.Outcome == "cutoff" {
		return nil
	}
	final := func(name string) string { return statusAt(tr, name, len(tr)) }
	for name, n := range g.nodes {
		for d, c := range n.Deps {
			if c != cSucc && c != cHealthy && c != cLogReady {
				continue
			}
			dn := g.nodes[d]
			if dn.Disabled {
				continue
			}
			if n.Disabled && findEvent(tr, 0, func(e Event) bool { return e.Kind == "api-ret" && strings.HasPrefix(e.Data, "start("+name+")") }) < 0 {
				continue // a disabled process nobody has started (yet) is not scheduled to run
			}
			fd := final(d)
			dTerminal := isTerminal(fd) || (fd == "Terminating" && howEnded(tr, d) == "stopped-pending")
			if !dTerminal || g.sat(tr, len(tr), d, c, 0) {
				continue
			}
			mode := howEnded(tr, d)
			launched := false
			for _, e := range tr {
				if (e.Kind == "start" || e.Kind == "startfail") && e.Proc == key0(name) {
					launched = true
				}
			}
			if launched {
				vs = append(vs, viol("C05", "launched-despite:"+c+":"+mode, "%s was launched although %s ended (%s) without meeting %s", name, d, mode, c))
				continue
			}
			fs := final(name)
			if fs != "Skipped" {
				vs = append(vs, viol("C05", "not-skipped:"+fs+":"+c+":"+mode, "%s is reported %s (not Skipped) although %s ended (%s) without meeting %s; outcome %s", name, fs, d, mode, c, w.Outcome))
			} else if w.Final != nil {
				if st, ok := w.Final.States[name]; ok && st.ExitCode == 0 {
					vs = append(vs, viol("C05", "skip-exit-code-zero", "%s is Skipped with exit code 0", name))
				}
			}
			if n.ExitOnSk && fs == "Skipped" {
				ri := findEvent(tr, 0, func(e Event) bool { return e.Kind == "run-ret" })
				if ri < 0 {
					vs = append(vs, viol("C05", "exit-on-skipped:no-return", "Run() did not return although %s (exit_on_skipped) was skipped", name))
				} else if tr[ri].Code != 1 {
					vs = append(vs, viol("C05", "exit-on-skipped:wrong-code", "Run() returned code %d, want 1 (%s with exit_on_skipped was skipped)", tr[ri].Code, name))
				}
			}
		}
	}
	return vs
}

func c05Scenarios(tier string) []*Scenario {
	k := 1
	var scs []*Scenario
	add := func(nodes []GNode, api ...[]APICall) {
		launchedAny := func(w *World) bool { return len(w.procs) > 0 }
		for _, calls := range api {
			for i := range calls {
				if calls[i].When == nil {
					calls[i].When = launchedAny
				}
			}
		}
		sc := graphScenario("c05", nodes, k, api...)
		g := newGcfg(nodes)
		sc.Check = g.c05Check
		scs = append(scs, sc)
	}
	conds := []string{cSucc, cHealthy, cLogReady}
	for _, c1 := range conds {
		// root failure modes for edge a -(c1)-> b
		var roots []GNode
		roots = append(roots, depNodeFor("a", c1, "unsat"))
		sf := depNodeFor("a", c1, "sat")
		sf.Beh = "startfail"
		sf.PrintsRdy = false
		roots = append(roots, sf)
		bd := depNodeFor("a", c1, "sat")
		bd.Beh = "baddir"
		bd.PrintsRdy = false
		roots = append(roots, bd)
		if c1 != cSucc {
			fl := depNodeFor("a", c1, "unsat")
			fl.Beh = "fail"
			roots = append(roots, fl)
		}
		for _, c2 := range conds {
			for ri, a := range roots {
				if tier != "thorough" && ri >= 2 && c1 != c2 {
					continue
				}
				b := withDeps(depNodeFor("b", c2, "sat"), map[string]string{"a": c1})
				c := GNode{Name: "c", Beh: "ok", Deps: map[string]string{"b": c2}}
				add([]GNode{a, b, c})
				if ri == 0 {
					ce := c
					ce.ExitOnSk = true
					add([]GNode{a, b, ce, {Name: "d", Beh: "daemon"}})
				}
			}
		}
		// stopped by the user before it becomes ready / completes
		slow := depNodeFor("a", c1, "sat")
		slow.Beh = "daemon"
		slow.PrintsRdy = false
		if c1 == cHealthy {
			slow.Probe = "fail"
		}
		b := GNode{Name: "b", Beh: "ok", Deps: map[string]string{"a": c1}}
		add([]GNode{slow, b, {Name: "c", Beh: "ok", Deps: map[string]string{"b": cSucc}}}, []APICall{{Op: "stop", Name: "a"}})
		// fan-out
		add([]GNode{depNodeFor("a", c1, "unsat"), {Name: "b", Beh: "ok", Deps: map[string]string{"a": c1}}, {Name: "c", Beh: "ok", Deps: map[string]string{"a": c1}}})
	}
	// the dependency failed and is stopped by the user while it waits out its restart back-off
	{
		a := GNode{Name: "a", Beh: "fail", Restart: "on_failure"}
		b := GNode{Name: "b", Beh: "ok", Deps: map[string]string{"a": cSucc}}
		restarting := func(w *World) bool { return w.lastStat["a"] == "Restarting" }
		add([]GNode{a, b, {Name: "c", Beh: "ok", Deps: map[string]string{"b": cSucc}}}, []APICall{{Op: "stop", Name: "a", When: restarting}})
		scs[len(scs)-1].TickBudget = 2
	}
	// `process-compose run b`: the main process carries exit_on_skipped (and implicitly exit_on_end) and is skipped
	for _, c1 := range conds {
		a := depNodeFor("a", c1, "unsat")
		b := GNode{Name: "b", Beh: "ok", Deps: map[string]string{"a": c1}, ExitOnSk: true}
		add([]GNode{a, b, {Name: "x", Beh: "daemon"}})
		sc := scs[len(scs)-1]
		sc.ID += "-main[b]"
		sc.Main = "b"
	}
	// the dependent in the middle is stopped by the user while it is still pending; its dependency fails
	// afterwards; a disabled process depending on the middle one is then started by hand
	for _, c1 := range conds {
		a := depNodeFor("a", c1, "unsat")
		b := GNode{Name: "b", Beh: "ok", Deps: map[string]string{"a": c1}}
		c := GNode{Name: "c", Beh: "ok", Deps: map[string]string{"b": cSucc}, Disabled: true}
		stopped := func(w *World) bool {
			for _, r := range w.apiRes {
				if r.Call.Op == "stop" && r.Done {
					return true
				}
			}
			return false
		}
		aEnded := func(w *World) bool {
			return len(w.procs) > 0 && !w.procs[0].Alive() && w.lastStat["a"] != "Running" && w.lastStat["a"] != ""
		}
		add([]GNode{a, b, c, {Name: "x", Beh: "daemon"}}, []APICall{{Op: "stop", Name: "b"}, {Op: "start", Name: "c", When: aEnded}})
		sc := scs[len(scs)-1]
		sc.Procs["a"].Hold = func(w *World, pc int) bool { return !stopped(w) }
	}
	if tier == "thorough" {
		for _, sc := range scs {
			if len(sc.Procs) <= 3 && sc.Horizon == 0 {
				sc.K = 2
			}
		}
	}
	return scs
}
