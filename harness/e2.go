package vh

// Engine E2: bounded-exhaustive enumeration of inputs and of map-iteration
// orders against reference models (no bubble, no scheduler).

import (
	"fmt"
	"os"
	"path/filepath"
	"time"

	"github.com/f1bonacc1/process-compose/src/loader"
	"github.com/f1bonacc1/process-compose/src/types"
	"github.com/f1bonacc1/process-compose/src/vrt"
)

// permMode selects how MapRange orders are perturbed during one evaluation.
type permMode struct {
	Kind string // "default" | "reverse-all" | "rotate-all" | "single"
	Site int    // single: dynamic occurrence number (1-based) among ranges with >= 2 keys
	Alt  int    // single: permutation index
}

func (m permMode) String() string {
	if m.Kind == "single" {
		return fmt.Sprintf("single(occ=%d,perm=%d)", m.Site, m.Alt)
	}
	return m.Kind
}

type permRecorder struct {
	occ   int
	sites []string
	ns    []int
}

// withPerm runs f with the given map-order mode and returns the ranges (>= 2 keys) it executed.
func withPerm(m permMode, f func()) *permRecorder {
	rec := &permRecorder{}
	vrt.PermHook = func(site string, n int) []int {
		rec.occ++
		rec.sites = append(rec.sites, site)
		rec.ns = append(rec.ns, n)
		switch m.Kind {
		case "reverse-all":
			p := make([]int, n)
			for i := range p {
				p[i] = n - 1 - i
			}
			return p
		case "rotate-all":
			p := make([]int, n)
			for i := range p {
				p[i] = (i + 1) % n
			}
			return p
		case "single":
			if rec.occ == m.Site {
				return vrt.Perm(n, m.Alt)
			}
		}
		return nil
	}
	defer func() { vrt.PermHook = nil }()
	f()
	return rec
}

// permModes enumerates the perturbations applied to one input: the global ones
// always; every single-site alternative when full is set.
func permModes(base *permRecorder, full bool) []permMode {
	ms := []permMode{{Kind: "reverse-all"}, {Kind: "rotate-all"}}
	if full {
		for i, n := range base.ns {
			for alt := 1; alt < vrt.NumPerms(n); alt++ {
				ms = append(ms, permMode{Kind: "single", Site: i + 1, Alt: alt})
			}
		}
	}
	return ms
}

func (o *E2Out) mine(idx int) bool { return o.NShards <= 1 || idx%o.NShards == o.Shard }

func (o *E2Out) expired() bool { return time.Now().After(o.Deadline) }

func (o *E2Out) violation(prop, sig, msg string, input any) {
	for _, v := range o.Violations {
		if v.Sig == sig {
			return
		}
	}
	o.Violations = append(o.Violations, FoundViolation{Scenario: "e2", Prop: prop, Sig: sig, Msg: msg, Repro: "e2", Input: input})
}

func (o *E2Out) sample(s string) {
	if len(o.Samples) < 6 {
		o.Samples = append(o.Samples, s)
	}
}

// loadFiles writes the given files into dir and loads names[...] through the real loader.
func loadFiles(dir string, files map[string]string, names []string, strict bool) (*types.Project, error) {
	var fns []string
	for n, c := range files {
		p := filepath.Join(dir, n)
		os.MkdirAll(filepath.Dir(p), 0o755)
		if err := os.WriteFile(p, []byte(c), 0o644); err != nil {
			return nil, err
		}
	}
	for _, n := range names {
		fns = append(fns, filepath.Join(dir, n))
	}
	opts := &loader.LoaderOptions{FileNames: fns, IsInternalLoader: true}
	opts.DisableDotenv(true)
	return loader.Load(opts)
}

// safely runs f and converts a panic into an error string.
func safely(f func()) (panicked string) {
	defer func() {
		if r := recover(); r != nil {
			panicked = fmt.Sprint(r)
		}
	}()
	f()
	return ""
}
