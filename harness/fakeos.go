package vh

// The fake operating system behind command.VerifFactory (environment model of
// engine E1). Deliberately boring: a process table, byte-queue pipes, a signal
// log. Everything a managed process "does" (write a chunk, exit, die from a
// signal, answer a probe) is an environment event that the explorer schedules.

import (
	"context"
	"errors"
	"fmt"
	"io"
	"io/fs"
	"os/exec"
	"reflect"
	"strconv"
	"strings"
	"syscall"
	"time"
	"unsafe"

	"github.com/f1bonacc1/process-compose/src/command"
	"github.com/f1bonacc1/process-compose/src/vrt"
)

// Action is one step of a fake process's script.
type Action struct {
	Kind string // "out", "err" (write Data), "exit" (Code)
	Data string
	Code int
}

func Out(s string) Action  { return Action{Kind: "out", Data: s} }
func Errw(s string) Action { return Action{Kind: "err", Data: s} }
func Exit(c int) Action    { return Action{Kind: "exit", Code: c} }

// ProcScript describes how the commands of one configured process behave.
type ProcScript struct {
	Launches  [][]Action                  // script per launch index; the last one repeats; empty script = runs until killed
	OnTerm    string                      // reaction to a catchable signal: "" / "die" (default), "ignore", "exit:<code>"
	StartFail []bool                      // per launch index: exec fails
	Children  int                         // modelled descendants in the same process group (C06)
	Hold      func(w *World, pc int) bool // when true the next script action (index pc) is not offered yet
	DieAfter  time.Duration               // a catchable lethal signal takes this long to kill the process (SIGKILL is immediate)
}

func (ps *ProcScript) launch(i int) []Action {
	if ps == nil || len(ps.Launches) == 0 {
		return nil
	}
	if i >= len(ps.Launches) {
		i = len(ps.Launches) - 1
	}
	return ps.Launches[i]
}

// Event is one entry of the execution trace all oracles read.
type Event struct {
	T     time.Duration // virtual time since the start of the execution
	Kind  string        // start startfail exit signal write eof state api-call api-ret run-ret aux sched ...
	Proc  string        // replica key name#num for fake processes, replica name for state events
	Inst  int           // launch index of the fake process
	Code  int
	Sig   int
	Flag  bool   // signal: parentOnly; exit: caused by signal
	Data  string // free text
	Alive []string
}

func (e Event) String() string {
	return fmt.Sprintf("%6.2fs %-9s %-8s inst=%d code=%d sig=%d flag=%v %s", e.T.Seconds(), e.Kind, e.Proc, e.Inst, e.Code, e.Sig, e.Flag, e.Data)
}

type pipe struct {
	buf     []byte
	wclosed bool
	rclosed bool
	name    string
}

type pipeReader struct {
	p *pipe
	w *World
}

func (r *pipeReader) Read(b []byte) (int, error) {
	p := r.p
	vrt.Point(&vrt.Op{Kind: "read", Tag: p.name, Obj: p, Enabled: func() bool { return len(p.buf) > 0 || p.wclosed || p.rclosed }})
	r.w.mu.Lock()
	defer r.w.mu.Unlock()
	if p.rclosed {
		return 0, &fs.PathError{Op: "read", Path: "|0", Err: fs.ErrClosed}
	}
	if len(p.buf) == 0 {
		return 0, io.EOF
	}
	n := copy(b, p.buf)
	p.buf = p.buf[n:]
	return n, nil
}

func (r *pipeReader) Close() error {
	r.w.mu.Lock()
	r.p.rclosed = true
	r.w.mu.Unlock()
	return nil
}

type nopWriteCloser struct{}

func (nopWriteCloser) Write(b []byte) (int, error) { return len(b), nil }
func (nopWriteCloser) Close() error                { return nil }

// FProc is one command instance (managed process or auxiliary command).
type FProc struct {
	w         *World
	cmd       *exec.Cmd
	Key       string // name#num for managed processes; aux key otherwise
	Name      string // configured (base) process name
	Num       int
	Inst      int
	pid       int
	script    []Action
	pc        int
	ps        *ProcScript
	started   bool
	exited    bool
	reaped    bool
	code      int
	bySig     bool
	inCleanup bool
	dying     bool          // lethal signal received, death pending
	dieAt     time.Duration // not before this virtual time (slowly dying processes)
	dieCode   int
	stdout    *pipe
	stderr    *pipe
	Env       []string
	Dir       string
	Args      []string
	Setpgid   bool
	StartT    time.Duration
	ExitT     time.Duration
	Signals   []Event
	Written   map[string][]string
}

func (f *FProc) Alive() bool { return f.started && !f.exited }

// envLookupFirst returns the effective value of key: exec uses the last duplicate.
func envLookupFirst(env []string, key string) (string, bool) {
	for i := len(env) - 1; i >= 0; i-- {
		if kv := env[i]; strings.HasPrefix(kv, key+"=") {
			return kv[len(key)+1:], true
		}
	}
	return "", false
}

func cmdCtx(cmd *exec.Cmd) context.Context {
	v := reflect.ValueOf(cmd).Elem().FieldByName("ctx")
	if !v.IsValid() || v.IsNil() {
		return nil
	}
	p := unsafe.Pointer(v.UnsafeAddr())
	return *(*context.Context)(p)
}

// factory is installed as command.VerifFactory for the duration of an execution.
func (w *World) factory(c *command.CmdWrapper, cmd *exec.Cmd) command.VerifFakeCmd {
	w.mu.Lock()
	defer w.mu.Unlock()
	if f, ok := w.byWrapper[c]; ok {
		return f
	}
	f := &FProc{w: w, cmd: cmd, Written: map[string][]string{}}
	w.byWrapper[c] = f
	return f
}

func (f *FProc) capture() {
	f.Env = append([]string(nil), f.cmd.Env...)
	f.Dir = f.cmd.Dir
	f.Args = append([]string(nil), f.cmd.Args...)
	f.Setpgid = f.cmd.SysProcAttr != nil && f.cmd.SysProcAttr.Setpgid
}

func (f *FProc) Start() error {
	w := f.w
	w.mu.Lock()
	defer w.mu.Unlock()
	f.capture()
	name, ok := envLookupFirst(f.Env, "PC_PROC_NAME")
	if !ok {
		name = "?" + strings.Join(f.Args, " ")
	}
	num := 0
	if s, ok := envLookupFirst(f.Env, "PC_REPLICA_NUM"); ok {
		num, _ = strconv.Atoi(s)
	}
	f.Name, f.Num = name, num
	f.Key = fmt.Sprintf("%s#%d", name, num)
	f.Inst = w.launches[f.Key]
	w.launches[f.Key]++
	f.ps = w.sc.script(name, num)
	w.nextPid++
	f.pid = w.nextPid
	f.StartT = w.now()
	if f.ps != nil && f.Inst < len(f.ps.StartFail) && f.ps.StartFail[f.Inst] {
		w.addEvent(Event{Kind: "startfail", Proc: f.Key, Inst: f.Inst})
		f.closePipesLocked()
		return &exec.Error{Name: f.cmd.Path, Err: exec.ErrNotFound}
	}
	f.script = f.ps.launch(f.Inst)
	f.started = true
	w.procs = append(w.procs, f)
	w.addEvent(Event{Kind: "start", Proc: f.Key, Inst: f.Inst, Data: strings.Join(f.Args, " "), Alive: w.aliveKeysLocked()})
	return nil
}

func (f *FProc) closePipesLocked() {
	if f.stdout != nil {
		f.stdout.wclosed = true
	}
	if f.stderr != nil {
		f.stderr.wclosed = true
	}
}

// exitLocked is called by the controller (environment event) or by Stop.
func (f *FProc) exitLocked(code int, bySig bool) {
	if f.exited {
		return
	}
	f.exited = true
	f.inCleanup = f.w.cleaning
	f.code = code
	f.bySig = bySig
	f.dying = false
	f.ExitT = f.w.now()
	f.closePipesLocked()
	f.w.addEvent(Event{Kind: "exit", Proc: f.Key, Inst: f.Inst, Code: code, Flag: bySig})
}

func (f *FProc) Wait() error {
	vrt.Point(&vrt.Op{Kind: "wait", Tag: f.Key, Obj: f, Enabled: func() bool { return f.exited || !f.started }})
	f.w.mu.Lock()
	defer f.w.mu.Unlock()
	if !f.started {
		return errors.New("exec: not started")
	}
	if f.reaped {
		return errors.New("exec: Wait was already called")
	}
	f.reaped = true
	// exec.Cmd.Wait closes the parent's ends of the pipes
	if f.stdout != nil {
		f.stdout.rclosed = true
	}
	if f.stderr != nil {
		f.stderr.rclosed = true
	}
	f.w.addEvent(Event{Kind: "reaped", Proc: f.Key, Inst: f.Inst, Code: f.code})
	if f.code != 0 {
		return &exec.ExitError{}
	}
	return nil
}

func (f *FProc) ExitCode() int {
	f.w.mu.Lock()
	defer f.w.mu.Unlock()
	if !f.reaped && f.Key != "" && !f.isAux() {
		// os.ProcessState is nil before Wait returned: real code would panic on
		// a nil ProcessState? (*ProcessState).ExitCode handles nil and returns -1.
		return -1
	}
	return f.code
}

func (f *FProc) isAux() bool { return f.Name == "" }

func (f *FProc) Pid() int { return f.pid }

func (f *FProc) mkpipe(which string) *pipe {
	return &pipe{name: which}
}

func (f *FProc) StdoutPipe() (io.ReadCloser, error) {
	f.w.mu.Lock()
	defer f.w.mu.Unlock()
	f.stdout = f.mkpipe("stdout")
	return &pipeReader{p: f.stdout, w: f.w}, nil
}

func (f *FProc) StderrPipe() (io.ReadCloser, error) {
	f.w.mu.Lock()
	defer f.w.mu.Unlock()
	f.stderr = f.mkpipe("stderr")
	return &pipeReader{p: f.stderr, w: f.w}, nil
}

func (f *FProc) StdinPipe() (io.WriteCloser, error) { return nopWriteCloser{}, nil }

// Stop is reached after the real signal clamp of stopper_unix.go.
func (f *FProc) Stop(sig int, parentOnly bool) error {
	w := f.w
	w.mu.Lock()
	defer w.mu.Unlock()
	ev := Event{Kind: "signal", Proc: f.Key, Inst: f.Inst, Sig: sig, Flag: parentOnly}
	if !f.started {
		ev.Data = "not-started"
		w.addEvent(ev)
		return errors.New("os: process not started")
	}
	if f.reaped {
		ev.Data = "reaped"
		w.addEvent(ev)
		if parentOnly {
			return errors.New("os: process already finished")
		}
		return syscall.ESRCH
	}
	if sig < 0 || sig > 64 {
		// kill(2): EINVAL, nothing is delivered
		ev.Data = "EINVAL"
		w.addEvent(ev)
		return syscall.EINVAL
	}
	if f.exited {
		ev.Data = "zombie"
	}
	w.addEvent(ev)
	f.Signals = append(f.Signals, ev)
	if f.exited || sig == 0 {
		return nil // signal 0 only tests for existence
	}
	lethal := false
	code := -1
	switch {
	case sig == int(syscall.SIGKILL):
		lethal = true
	case sig == int(syscall.SIGCHLD) || sig == int(syscall.SIGCONT) || sig == int(syscall.SIGURG) || sig == int(syscall.SIGWINCH):
		// default action: ignore
	case sig == int(syscall.SIGSTOP) || sig == int(syscall.SIGTSTP) || sig == int(syscall.SIGTTIN) || sig == int(syscall.SIGTTOU):
		// stops, does not terminate
	default:
		on := ""
		if f.ps != nil {
			on = f.ps.OnTerm
		}
		switch {
		case on == "" || on == "die":
			lethal = true
		case on == "ignore":
		case strings.HasPrefix(on, "exit:"):
			lethal = true
			code, _ = strconv.Atoi(on[5:])
		}
	}
	if w.cleaning {
		f.exitLocked(-1, true)
		return nil
	}
	if lethal && !f.dying {
		f.dying = true
		f.dieCode = code
		f.dieAt = 0
		if f.ps != nil && f.ps.DieAfter > 0 && sig != int(syscall.SIGKILL) {
			f.dieAt = w.now() + f.ps.DieAfter
		}
	} else if lethal && sig == int(syscall.SIGKILL) {
		f.dieAt = 0
	}
	return nil
}

// ---- auxiliary commands: shutdown.command, exec probes, env_cmds ----------

func (f *FProc) auxKey() string {
	// last argument is the shell command line
	if len(f.Args) == 0 {
		return "?"
	}
	return f.Args[len(f.Args)-1]
}

// Run serves shutdown commands and exec probes (both built with a context).
// The first thing it does is park: goroutines of un-instrumented third-party
// code (go-health tickers) that wake at the same virtual instant must not do
// anything observable before the scheduler has ordered them.
func (f *FProc) Run() error {
	w := f.w
	key := ""
	if a := f.cmd.Args; len(a) > 0 {
		key = a[len(a)-1]
	}
	vrt.Point(&vrt.Op{Kind: "aux", Tag: key, Env: w.sc.AuxAsEnv})
	w.mu.Lock()
	f.capture()
	f.Key = "aux:" + key
	n := w.auxCalls[key]
	w.auxCalls[key]++
	outcome := w.sc.auxOutcome(key, n)
	w.addEvent(Event{Kind: "aux-req", Proc: f.Key, Inst: n, Data: outcome})
	w.auxLog = append(w.auxLog, f)
	w.mu.Unlock()
	ctx := cmdCtx(f.cmd)
	if ctx != nil && ctx.Err() != nil {
		w.event(Event{Kind: "aux-ans", Proc: f.Key, Inst: n, Data: "ctx-expired"})
		f.code = -1
		return ctx.Err()
	}
	switch {
	case outcome == "ok":
		w.mu.Lock()
		w.applyAuxEffectLocked(key)
		w.addEvent(Event{Kind: "aux-ans", Proc: f.Key, Inst: n, Data: "ok"})
		w.mu.Unlock()
		f.code = 0
		return nil
	case outcome == "hang":
		if ctx == nil {
			panic("harness: hanging aux command without context: " + key)
		}
		<-ctx.Done()
		vrt.Yield("aux-killed")
		w.event(Event{Kind: "aux-ans", Proc: f.Key, Inst: n, Data: "killed"})
		f.code = -1
		return errors.New("signal: killed")
	case outcome == "sigkill":
		// the command is killed by a signal (not by its context): no exit code of its own
		w.event(Event{Kind: "aux-ans", Proc: f.Key, Inst: n, Data: "killed"})
		f.code = -1
		return errors.New("signal: killed")
	default: // "fail"
		w.event(Event{Kind: "aux-ans", Proc: f.Key, Inst: n, Data: "fail"})
		f.code = 1
		return &exec.ExitError{}
	}
}

// Output serves env_cmds.
func (f *FProc) Output() ([]byte, error) {
	w := f.w
	if a := f.cmd.Args; len(a) > 0 {
		// a scripted auxiliary command (probe, shutdown command) run for its output behaves as under Run()
		w.mu.Lock()
		_, isAux := w.sc.Aux[a[len(a)-1]]
		_, isEnv := w.sc.EnvCmdOut[a[len(a)-1]]
		w.mu.Unlock()
		if isAux && !isEnv {
			return nil, f.Run()
		}
	}
	vrt.Yield("envcmd")
	w.mu.Lock()
	defer w.mu.Unlock()
	f.capture()
	key := f.auxKey()
	f.Key = "aux:" + key
	out, ok := w.sc.EnvCmdOut[key]
	w.addEvent(Event{Kind: "envcmd", Proc: f.Key, Data: out, Flag: ok})
	if !ok {
		return nil, &exec.ExitError{}
	}
	return []byte(out), nil
}
