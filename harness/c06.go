package vh

// C06 OS-level stop: signal, process group, SIGKILL escalation, shutdown command
// (decision logic in virtual time; the kernel side is bound by the E3 conformance run).

import (
	"fmt"
	"strings"
	"time"
)

func init() { registry["C06"] = &propDef{e1: c06Scenarios} }

type c06Cfg struct {
	sig        int
	parentOnly bool
	timeout    int
	cmd        string // "" | ok-kill | ok-noeffect | fail | hang
	react      string // die | ignore
	source     string // stop | shutdown
	manual     bool   // the process is disabled in the configuration and started by hand
	ordered    bool   // ordered shutdown
	second     string // a second request (stop | shutdown) issued while the process is Terminating after the first
}

func (c c06Cfg) id() string {
	s := fmt.Sprintf("c06-sig%d-po%v-to%d-cmd[%s]-%s-%s", c.sig, c.parentOnly, c.timeout, c.cmd, c.react, c.source)
	if c.manual {
		s += "-manual"
	}
	if c.ordered {
		s += "-ordered"
	}
	if c.second != "" {
		s += "-then-" + c.second
	}
	return s
}

func c06Scenarios(tier string) []*Scenario {
	var scs []*Scenario
	sigs := []int{-1, 0, 1, 2, 9, 15, 31, 32, 99}
	if tier == "thorough" {
		sigs = append(sigs, 64, 65, 1000)
	}
	for _, source := range []string{"stop", "shutdown"} {
		for _, react := range []string{"die", "ignore"} {
			for _, to := range []int{0, 2} {
				for _, po := range []bool{false, true} {
					for _, sg := range sigs {
						if tier != "thorough" && source == "shutdown" && sg != 0 && sg != 2 && sg != 9 {
							continue
						}
						if tier != "thorough" && po && sg != 0 && sg != 15 && sg != 32 {
							continue
						}
						scs = append(scs, c06Scenario(c06Cfg{sig: sg, parentOnly: po, timeout: to, react: react, source: source}))
					}
					for _, cmd := range []string{"ok-kill", "ok-noeffect", "fail", "hang"} {
						if tier != "thorough" && po {
							continue
						}
						scs = append(scs, c06Scenario(c06Cfg{sig: 0, parentOnly: po, timeout: to, cmd: cmd, react: react, source: source}))
					}
				}
			}
		}
	}
	// a second stop request, or the project shutdown, while the process ignores the first request's signal: the
	// SIGKILL owed to the first request still comes when its time-out expires
	for _, second := range []string{"stop", "shutdown"} {
		for _, react := range []string{"die", "ignore"} {
			for _, sg := range []int{0, 2} {
				scs = append(scs, c06Scenario(c06Cfg{sig: sg, timeout: 2, react: react, source: "stop", second: second}))
			}
		}
	}
	// every way a process can have come to run and every shutdown order: configured or disabled and started
	// by hand, default or ordered shutdown
	for _, manual := range []bool{false, true} {
		for _, ordered := range []bool{false, true} {
			if !manual && !ordered {
				continue
			}
			for _, react := range []string{"die", "ignore"} {
				scs = append(scs, c06Scenario(c06Cfg{sig: 0, timeout: 2, react: react, source: "shutdown", manual: manual, ordered: ordered}))
				scs = append(scs, c06Scenario(c06Cfg{sig: 0, timeout: 2, cmd: "fail", react: react, source: "shutdown", manual: manual, ordered: ordered}))
			}
		}
	}
	// a project shutdown that finds a process without a live command - waiting out its restart back-off, or
	// pending on a dependency that still runs: nothing of it is launched afterwards, nothing is left alive
	for _, phase := range []string{"backoff", "pending"} {
		for _, ordered := range []bool{false, true} {
			phase, ordered := phase, ordered
			sc := &Scenario{ID: fmt.Sprintf("c06-shutdown-in-%s-ordered%v", phase, ordered), K: 1, TickBudget: 3, Idle: 25 * time.Second, Ordered: ordered}
			var when func(w *World) bool
			if phase == "backoff" {
				sc.YAML = projectYAML(nil, PC{Name: "a", Restart: "always", Backoff: 2}, PC{Name: "x"})
				sc.Procs = map[string]*ProcScript{"a": {Launches: [][]Action{{Exit(1)}, {}}}, "x": {}}
				when = func(w *World) bool { return w.lastStat["a"] == "Restarting" }
			} else {
				sc.YAML = projectYAML(nil, PC{Name: "d"}, PC{Name: "a", Deps: map[string]string{"d": cCompleted}})
				sc.Procs = map[string]*ProcScript{"d": {}, "a": {}}
				when = func(w *World) bool { return w.launches["d#0"] > 0 }
			}
			sc.API = [][]APICall{{{Op: "shutdown", When: when}}}
			sc.Check = func(w *World) []Violation {
				var vs []Violation
				tr := w.pre()
				ret := findEvent(tr, 0, func(e Event) bool { return e.Kind == "api-ret" })
				if ret < 0 {
					return nil
				}
				for i := ret; i < len(tr); i++ {
					if tr[i].Kind == "start" {
						vs = append(vs, viol("C06", "launched-after-shutdown:"+phase, "%s was launched after the project shutdown had returned (it was %s when the shutdown arrived)", tr[i].Proc, phase))
						break
					}
				}
				if len(tr[ret].Alive) > 0 {
					vs = append(vs, viol("C06", "alive-after-shutdown:"+phase, "commands alive when the project shutdown returned: %v", tr[ret].Alive))
				}
				return vs
			}
			scs = append(scs, sc)
		}
	}
	// a daemon (is_daemon: the launcher has exited 0, the process is reported Launched) with a shutdown.command:
	// no command of it is alive, so the stop command is the only way its daemonised descendant is ever ended -
	// a stop request or the project shutdown has to run it, once
	for _, source := range []string{"stop", "shutdown"} {
		for _, ordered := range []bool{false, true} {
			if source == "stop" && ordered {
				continue
			}
			source := source
			sc := &Scenario{ID: fmt.Sprintf("c06-daemon-launched-cmd-%s-ordered%v", source, ordered), K: 1, TickBudget: 2, Idle: 25 * time.Second, Ordered: ordered}
			sc.YAML = projectYAML(nil, PC{Name: "a", Lines: []string{"is_daemon: true", "shutdown:", "  command: \"stopcmd-a\"", "  timeout_seconds: 2"}}, PC{Name: "x"})
			sc.Procs = map[string]*ProcScript{"a": {Launches: exits(0)}, "x": {}}
			sc.Aux = map[string][]string{"stopcmd-a": {"ok"}}
			launchedA := func(w *World) bool { return w.lastStat["a"] == "Launched" }
			if source == "stop" {
				sc.API = [][]APICall{{{Op: "stop", Name: "a", When: launchedA}, {Op: "shutdown"}}}
			} else {
				sc.API = [][]APICall{{{Op: "shutdown", When: launchedA}}}
			}
			sc.Check = func(w *World) []Violation {
				var vs []Violation
				tr := w.pre()
				req := findEvent(tr, 0, func(e Event) bool { return e.Kind == "api-call" && strings.HasPrefix(e.Data, source) })
				if req < 0 || statusAt(tr, "a", req) != "Launched" {
					return nil
				}
				ret := findEvent(tr, req, func(e Event) bool { return e.Kind == "api-ret" && strings.HasPrefix(e.Data, source) })
				if ret < 0 {
					return nil
				}
				n := 0
				for i := req; i < len(tr); i++ {
					if tr[i].Kind == "aux-req" && tr[i].Proc == "aux:stopcmd-a" {
						n++
					}
				}
				if n == 0 && (w.Outcome == "completed" || w.Outcome == "stuck") {
					vs = append(vs, viol("C06", "daemon-stop-command-not-run:"+source, "daemon a was Launched when the %s request arrived and the request returned, but its shutdown.command was never run (outcome %s)", source, w.Outcome))
				}
				if n > 1 {
					vs = append(vs, viol("C06", "daemon-stop-command-twice:"+source, "the shutdown.command of daemon a was run %d times", n))
				}
				return vs
			}
			scs = append(scs, sc)
		}
	}
	return scs
}

func c06Scenario(c c06Cfg) *Scenario {
	pc := PC{Name: "a", Lines: []string{"working_dir: \"/\"", "environment:", "  - 'VHP=p'", "shutdown:"}}
	if c.sig != 0 {
		pc.Lines = append(pc.Lines, fmt.Sprintf("  signal: %d", c.sig))
	}
	if c.parentOnly {
		pc.Lines = append(pc.Lines, "  parent_only: true")
	}
	if c.timeout != 0 {
		pc.Lines = append(pc.Lines, fmt.Sprintf("  timeout_seconds: %d", c.timeout))
	}
	sc := &Scenario{ID: c.id(), K: 1, TickBudget: 2, Idle: 25 * time.Second}
	if c.cmd != "" {
		pc.Lines = append(pc.Lines, "  command: \"stopcmd-a\"")
		switch c.cmd {
		case "ok-kill":
			sc.Aux = map[string][]string{"stopcmd-a": {"ok"}}
			sc.AuxEffect = map[string]string{"stopcmd-a": "kill:a"}
		case "ok-noeffect":
			sc.Aux = map[string][]string{"stopcmd-a": {"ok"}}
		case "fail":
			sc.Aux = map[string][]string{"stopcmd-a": {"fail"}}
		case "hang":
			sc.Aux = map[string][]string{"stopcmd-a": {"hang"}}
		}
	}
	if len(pc.Lines) == 4 {
		pc.Lines = pc.Lines[:3]
	}
	if c.manual {
		pc.Lines = append(pc.Lines, "disabled: true")
	}
	sc.YAML = projectYAML(nil, pc)
	sc.Ordered = c.ordered
	ps := &ProcScript{OnTerm: c.react}
	if c.cmd == "ok-noeffect" {
		// the target outlives a successful stop command: the scenario ends it itself afterwards
		ps.Launches = [][]Action{{Exit(0)}}
	}
	sc.Procs = map[string]*ProcScript{"a": ps}
	launched := func(w *World) bool { return len(w.procs) > 0 }
	if c.source == "stop" {
		sc.API = [][]APICall{{{Op: "stop", Name: "a", When: launched}}}
	} else {
		sc.API = [][]APICall{{{Op: "shutdown", When: launched}}}
	}
	if c.manual {
		// a second, ordinary process keeps the project up; a is started through the API, then the shutdown comes
		sc.YAML = projectYAML(nil, pc, PC{Name: "x"})
		sc.Procs["x"] = &ProcScript{}
		aUp := func(w *World) bool { return w.launches["a#0"] > 0 }
		sc.API = [][]APICall{{{Op: "start", Name: "a", When: launched}, {Op: "shutdown", When: aUp}}}
	}
	if c.second != "" {
		// a second request while the first one's signal is being ignored and its kill timer is running
		terminating := func(w *World) bool { return w.lastStat["a"] == "Terminating" }
		// (from a second client: the first request is still waiting for its time-out)
		if c.second == "stop" {
			sc.API = append(sc.API, []APICall{{Op: "stop", Name: "a", When: terminating}})
		} else {
			sc.API = append(sc.API, []APICall{{Op: "shutdown", When: terminating}})
		}
	}
	if c.cmd == "ok-noeffect" {
		// the natural exit may only happen after the stop was requested
		sc.Setup = func(w *World) { w.Extra["hold-exit"] = true }
	}
	sc.Check = func(w *World) []Violation { return c06Check(w, c) }
	return sc
}

func c06Check(w *World, c c06Cfg) []Violation {
	var vs []Violation
	tr := w.pre()
	key := key0("a")
	for _, f := range w.procs {
		if f.Key == key && !f.Setpgid {
			vs = append(vs, viol("C06", "no-setpgid", "command of a launched without its own process group"))
		}
	}
	req := findEvent(tr, 0, func(e Event) bool {
		return e.Kind == "api-call" && (strings.HasPrefix(e.Data, "stop") || strings.HasPrefix(e.Data, "shutdown"))
	})
	if req < 0 {
		return vs
	}
	// a natural exit before the request makes the scenario moot
	if ex := findEvent(tr, 0, func(e Event) bool { return e.Kind == "exit" && e.Proc == key }); ex >= 0 && ex < req {
		return vs
	}
	want := c.sig
	if want < 1 || want > 31 {
		want = 15
	}
	var sigs []int
	for i := req; i < len(tr); i++ {
		if tr[i].Kind == "signal" && tr[i].Proc == key {
			sigs = append(sigs, i)
		}
	}
	exitPos := findEvent(tr, req, func(e Event) bool { return e.Kind == "exit" && e.Proc == key })
	settled := w.Outcome == "completed" || w.Outcome == "stuck"
	// a deviation may let one clock quantum pass between two steps of a thread: timers may
	// therefore be armed (and fire) late by at most k quanta; they must never fire early
	slack := time.Duration(w.sc.K) * quantum
	kills := func(from int) []int {
		var k []int
		for _, i := range sigs {
			if i >= from && tr[i].Sig == 9 {
				k = append(k, i)
			}
		}
		return k
	}
	if c.cmd == "" {
		if len(sigs) == 0 {
			if settled {
				vs = append(vs, viol("C06", "no-signal", "%s requested but no signal was sent", c.source))
			}
			return vs
		}
		first := tr[sigs[0]]
		if first.Sig != want {
			vs = append(vs, viol("C06", "wrong-signal", "first signal %d, configured %d (expected %d)", first.Sig, c.sig, want))
		}
		if first.Flag != c.parentOnly {
			vs = append(vs, viol("C06", "wrong-target", "signal sent with parent_only=%v, configured %v", first.Flag, c.parentOnly))
		}
		ts := first.T
		rest := sigs[1:]
		if c.timeout == 0 {
			for _, i := range rest {
				vs = append(vs, viol("C06", "kill-without-timeout", "signal %d sent although no shutdown.timeout_seconds is configured", tr[i].Sig))
			}
		} else {
			deadline := ts + time.Duration(c.timeout)*time.Second
			diedBefore := exitPos >= 0 && tr[exitPos].T < deadline
			// exits exactly at the deadline are ambiguous: both outcomes accepted
			diedAt := exitPos >= 0 && tr[exitPos].T == deadline
			ks := kills(sigs[0] + 1)
			if want == 9 {
				ks = nil
				for _, i := range rest {
					ks = append(ks, i)
				}
			}
			for _, i := range ks {
				e := tr[i]
				if e.Flag != c.parentOnly {
					vs = append(vs, viol("C06", "wrong-target:kill", "SIGKILL after the time-out sent with parent_only=%v, configured %v", e.Flag, c.parentOnly))
				}
				switch {
				case e.T < deadline:
					vs = append(vs, viol("C06", "kill-early", "SIGKILL at %v, %v after the stop signal (timeout %ds)", e.T, e.T-ts, c.timeout))
				case e.T > deadline+slack:
					vs = append(vs, viol("C06", "kill-late", "SIGKILL at %v, %v after the stop signal (timeout %ds)", e.T, e.T-ts, c.timeout))
				case (diedBefore) || e.Data == "reaped":
					vs = append(vs, viol("C06", "kill-after-death", "SIGKILL sent at %v although the process had exited at %v", e.T, tr[exitPos].T))
				}
			}
			if len(ks) > 1 {
				vs = append(vs, viol("C06", "kill-twice", "%d SIGKILLs", len(ks)))
			}
			if len(ks) == 0 && !diedBefore && !diedAt && settled && want != 9 {
				vs = append(vs, viol("C06", "kill-missing", "process still alive %ds after the stop signal but no SIGKILL was sent (outcome %s)", c.timeout, w.Outcome))
			}
		}
		return vs
	}
	// ---- configured shutdown command ---------------------------------------------
	reqAux := findEvent(tr, req, func(e Event) bool { return e.Kind == "aux-req" && e.Proc == "aux:stopcmd-a" })
	if reqAux < 0 {
		if settled {
			vs = append(vs, viol("C06", "stop-command-not-run", "shutdown.command configured but not executed"))
		}
		return vs
	}
	for _, f := range w.auxLog {
		if f.Key != "aux:stopcmd-a" {
			continue
		}
		e := effectiveEnv(f.Env)
		if e["PC_PROC_NAME"] != "a" || e["VHP"] != "p" {
			vs = append(vs, viol("C06", "stop-command-env", "shutdown.command runs with PC_PROC_NAME=%q VHP=%q", e["PC_PROC_NAME"], e["VHP"]))
		}
		if f.Dir != "/" {
			vs = append(vs, viol("C06", "stop-command-dir", "shutdown.command runs in %q, want /", f.Dir))
		}
	}
	for _, i := range sigs {
		if i < reqAux {
			vs = append(vs, viol("C06", "signal-before-command", "signal %d sent before the shutdown command ran", tr[i].Sig))
		}
	}
	ans := findEvent(tr, reqAux, func(e Event) bool { return e.Kind == "aux-ans" && e.Proc == "aux:stopcmd-a" })
	if ans < 0 {
		return vs
	}
	ks := kills(reqAux)
	switch tr[ans].Data {
	case "ok":
		for _, i := range sigs {
			if i > reqAux {
				vs = append(vs, viol("C06", "kill-after-successful-command", "signal %d sent although the shutdown command succeeded", tr[i].Sig))
			}
		}
	case "fail", "killed", "ctx-expired":
		if len(ks) == 0 && settled {
			vs = append(vs, viol("C06", "kill-missing:command-"+tr[ans].Data, "shutdown command %s but no SIGKILL followed", tr[ans].Data))
		}
		if tr[ans].Data == "killed" {
			to := c.timeout
			if to == 0 {
				to = 10
			}
			if d := tr[ans].T - tr[reqAux].T; d > time.Duration(to)*time.Second+slack || d < time.Duration(to)*time.Second-slack {
				vs = append(vs, viol("C06", "command-timeout", "hanging shutdown command was killed after %v, want %ds", d, to))
			}
		}
		for _, i := range ks {
			if tr[i].Flag != false && !c.parentOnly {
				vs = append(vs, viol("C06", "wrong-target", "SIGKILL after a failed command sent with parent_only"))
			}
		}
	}
	_ = strings.Join
	return vs
}
