package vh

// C14 Live project update converges to the new config with minimal disturbance.

import (
	"bytes"
	"encoding/json"
	"fmt"
	"github.com/f1bonacc1/process-compose/src/api"
	"github.com/f1bonacc1/process-compose/src/types"
	"net/http/httptest"
	"sort"
	"strings"
	"time"
)

func init() { registry["C14"] = &propDef{e1: c14Scenarios} }

type c14Proc struct {
	Exe, Arg, Env, Dir, Restart, Desc string
	Period, Signal                    int
	Dep, Disabled                     bool
	Cmd                               bool // defined with command: (run through the shell) instead of entrypoint:
	DepCond                           string
	Threshold, Max, ShutTimeout       int
}

func c14Base() c14Proc {
	return c14Proc{Exe: "run-it", Arg: "x", Env: "K=1", Dir: "/", Restart: "no", Desc: "d1", Period: 30, Signal: 15, DepCond: "process_completed", Threshold: 4, Max: 2, ShutTimeout: 3}
}

var c14Fields = []string{"executable", "args", "environment", "working_dir", "probe", "probe_threshold", "availability", "max_restarts", "depends_on", "dep_condition", "shutdown", "shutdown_timeout", "description"}

func (p c14Proc) change(field string) c14Proc {
	tog := func(cur, a, b string) string {
		if cur == a {
			return b
		}
		return a
	}
	switch field {
	case "executable":
		p.Exe = tog(p.Exe, "run-it", "run-it2")
	case "args":
		p.Arg = tog(p.Arg, "x", "y")
	case "environment":
		p.Env = tog(p.Env, "K=1", "K=2")
	case "working_dir":
		p.Dir = tog(p.Dir, "/", "/tmp")
	case "probe":
		p.Period = 61 - p.Period
	case "availability":
		p.Restart = tog(p.Restart, "no", "on_failure")
	case "depends_on":
		p.Dep = !p.Dep
	case "dep_condition":
		p.Dep = true
		p.DepCond = tog(p.DepCond, "process_completed", "process_started")
	case "probe_threshold":
		p.Threshold = 9 - p.Threshold
	case "max_restarts":
		p.Max = 5 - p.Max
	case "shutdown_timeout":
		p.ShutTimeout = 7 - p.ShutTimeout
	case "shutdown":
		p.Signal = 17 - p.Signal
	case "description":
		p.Desc = tog(p.Desc, "d1", "d2")
	}
	return p
}

func (p c14Proc) yaml(name string) string {
	var b strings.Builder
	if p.Cmd {
		fmt.Fprintf(&b, "  %s:\n    command: %q\n    description: %q\n    working_dir: %q\n    environment:\n      - '%s'\n", name, p.Exe+" "+p.Arg, p.Desc, p.Dir, p.Env)
	} else {
		fmt.Fprintf(&b, "  %s:\n    entrypoint: [%q, %q]\n    description: %q\n    working_dir: %q\n    environment:\n      - '%s'\n", name, p.Exe, p.Arg, p.Desc, p.Dir, p.Env)
	}
	fmt.Fprintf(&b, "    availability:\n      restart: %q\n      max_restarts: %d\n    shutdown:\n      signal: %d\n      timeout_seconds: %d\n", p.Restart, p.Max, p.Signal, p.ShutTimeout)
	fmt.Fprintf(&b, "    readiness_probe:\n      exec:\n        command: \"probe-%s\"\n      period_seconds: %d\n      failure_threshold: %d\n", name, p.Period, p.Threshold)
	if p.Dep {
		fmt.Fprintf(&b, "    depends_on:\n      d:\n        condition: %s\n", p.DepCond)
	}
	if p.Disabled {
		b.WriteString("    disabled: true\n")
	}
	return b.String()
}

func c14Project(procs map[string]c14Proc) string {
	var b strings.Builder
	b.WriteString("version: \"0.5\"\nprocesses:\n  d:\n    entrypoint: [\"run-d\"]\n")
	names := make([]string, 0, len(procs))
	for n := range procs {
		names = append(names, n)
	}
	sort.Strings(names)
	for _, n := range names {
		b.WriteString(procs[n].yaml(n))
	}
	return b.String()
}

func c14Scenarios(tier string) []*Scenario {
	var scs []*Scenario
	modes := []string{"same", "removed"}
	for _, f := range c14Fields {
		modes = append(modes, "changed:"+f)
	}
	mk := func(id string, updates []map[string]string, init map[string]c14Proc) {
		sc := &Scenario{ID: "c14-" + id, YAML: c14Project(init), K: 0, EnvCost: 1, Horizon: 100 * time.Second,
			Procs: map[string]*ProcScript{"d": {Launches: exits(0)}, "a": {}, "b": {}, "c": {}}}
		n0 := len(init)
		ready := func(w *World) bool {
			alive := 0
			for _, f := range w.procs {
				if f.Alive() && f.Name != "d" {
					alive++
				}
			}
			return alive == n0 && w.launches["d#0"] > 0
		}
		// a pure change of a dependency's condition needs the dependency to exist before
		init2 := map[string]c14Proc{}
		for n, p := range init {
			for _, u := range updates {
				if u[n] == "changed:dep_condition" {
					p.Dep = true
				}
			}
			init2[n] = p
		}
		init = init2
		sc.YAML = c14Project(init)
		cur := init
		var calls []APICall
		var steps []c14Step
		for ui, u := range updates {
			next := map[string]c14Proc{}
			exp := map[string]string{}
			for n, p := range cur {
				switch m := u[n]; {
				case m == "" || m == "same":
					next[n] = p
				case m == "removed":
					exp[n] = "removed"
				case strings.HasPrefix(m, "changed:"):
					next[n] = p.change(m[8:])
					exp[n] = "updated:" + m[8:]
				}
			}
			for n, m := range u {
				if m == "added" || m == "added-disabled" {
					np := c14Base()
					np.Disabled = m == "added-disabled"
					next[n] = np
					exp[n] = "added"
				}
			}
			steps = append(steps, c14Step{before: cur, after: next, exp: exp})
			c := APICall{Op: "update", YAML: c14Project(next)}
			if ui == 0 {
				c.When = ready
			}
			calls = append(calls, c)
			cur = next
		}
		sc.API = [][]APICall{calls}
		sc.Check = func(w *World) []Violation { return c14Check(w, steps) }
		scs = append(scs, sc)
	}
	init := map[string]c14Proc{"a": c14Base(), "b": c14Base()}
	for _, ma := range modes {
		for _, mb := range modes {
			if tier != "thorough" && ma != "same" && mb != "same" && !(ma == "removed" || mb == "removed") && ma != mb {
				continue
			}
			for _, addC := range []bool{false, true} {
				if tier != "thorough" && addC && ma != "same" && mb != "same" {
					continue
				}
				u := map[string]string{"a": ma, "b": mb}
				id := ma + "," + mb
				if addC {
					u["c"] = "added"
					id += ",+c"
				}
				mk(id, []map[string]string{u}, init)
			}
		}
	}
	// the updated / removed process has no live command when the update arrives: it waits out a restart
	// back-off, or is still pending on its dependency (which ends once the update has been served)
	for _, phase := range []string{"backoff", "pending"} {
		for _, mode := range []string{"removed", "changed:args", "changed:environment", "same"} {
			phase, mode := phase, mode
			base := c14Base()
			if phase == "backoff" {
				base.Restart = "on_failure"
			} else {
				base.Dep = true
			}
			init := map[string]c14Proc{"a": base, "b": base}
			next := map[string]c14Proc{"b": base}
			after := base
			switch {
			case strings.HasPrefix(mode, "changed:"):
				after = base.change(mode[8:])
				next["a"] = after
			case mode == "same":
				next["a"] = base
			}
			served := func(w *World) bool { return len(w.apiRes) > 0 && w.apiRes[0].Done }
			sc := &Scenario{ID: "c14-" + phase + ":" + mode, YAML: c14Project(init), K: 1, TickBudget: 1, Horizon: 100 * time.Second,
				Procs: map[string]*ProcScript{"d": {Launches: exits(0)}, "a": {}, "b": {}}}
			var ready func(w *World) bool
			if phase == "backoff" {
				sc.Procs["a"] = &ProcScript{Launches: [][]Action{{Exit(1)}, {}}}
				sc.Procs["b"] = &ProcScript{Launches: [][]Action{{Exit(1)}, {}}}
				ready = func(w *World) bool {
					return w.launches["a#0"] == 1 && w.launches["b#0"] == 1 && w.lastStat["a"] == "Restarting" && w.lastStat["b"] == "Restarting"
				}
			} else {
				sc.Procs["d"] = &ProcScript{Launches: exits(0), Hold: func(w *World, pc int) bool { return !served(w) }}
				ready = func(w *World) bool { return w.launches["d#0"] > 0 }
			}
			sc.API = [][]APICall{{{Op: "update", YAML: c14Project(next), When: ready}}}
			sc.Check = func(w *World) []Violation { return c14GhostCheck(w, mode, base, after) }
			scs = append(scs, sc)
		}
	}
	// the process editor / a REST client: the configuration is fetched from the runner (it carries the
	// executable and arguments assigned earlier), one launch-relevant field is edited, and it is sent back
	for _, field := range []string{"entrypoint", "environment", "working_dir"} {
		field := field
		init := map[string]c14Proc{"a": c14Base(), "b": c14Base()}
		sc := &Scenario{ID: "c14-editor:" + field, YAML: c14Project(init), K: 0, EnvCost: 1, Horizon: 100 * time.Second,
			Procs: map[string]*ProcScript{"d": {Launches: exits(0)}, "a": {}, "b": {}}}
		ready := func(w *World) bool {
			alive := 0
			for _, f := range w.procs {
				if f.Alive() && f.Name != "d" {
					alive++
				}
			}
			return alive == 2 && w.launches["d#0"] > 0
		}
		sc.API = [][]APICall{{{Op: "fn", Name: "edit:a:" + field, When: ready, Fn: func(w *World) (string, error) {
			cur, err := w.Runner.GetProcessInfo("a")
			if err != nil {
				return "", err
			}
			pc := *cur
			switch field {
			case "entrypoint":
				pc.Entrypoint = []string{"run-it2", "y"}
			case "environment":
				pc.Environment = []string{"K=2"}
			case "working_dir":
				pc.WorkingDir = "/tmp"
			}
			return "", w.Runner.UpdateProcess(&pc)
		}}}}
		sc.Check = func(w *World) []Violation {
			var vs []Violation
			tr := w.pre()
			ret := findEvent(tr, 0, func(e Event) bool { return e.Kind == "api-ret" })
			if ret < 0 {
				if findEvent(tr, 0, func(e Event) bool { return e.Kind == "api-call" }) >= 0 && w.Outcome != "deadlock" {
					vs = append(vs, viol("C14", "update-blocked:"+blockedKinds(w, "api"), "UpdateProcess did not return (outcome %s, blocked %v)", w.Outcome, w.Blocked))
				}
				return vs
			}
			if tr[ret].Flag {
				return append(vs, viol("C14", "update-error", "UpdateProcess failed: %s", tr[ret].Data))
			}
			var last *FProc
			starts := 0
			for _, f := range w.procs {
				if f.Key == key0("a") {
					last = f
					starts++
				}
			}
			if starts != 2 || last == nil {
				return append(vs, viol("C14", "kept-but-changed:"+field, "the %s of a was edited but %d commands of a were launched in all (want the old and one new)", field, starts))
			}
			want := c14Base()
			switch field {
			case "entrypoint":
				want.Exe, want.Arg = "run-it2", "y"
			case "environment":
				want.Env = "K=2"
			case "working_dir":
				want.Dir = "/tmp"
			}
			if (len(last.Args) < 2 || last.Args[0] != want.Exe || last.Args[1] != want.Arg) && !(strings.HasSuffix(last.cmd.Path, "/"+want.Exe) && len(last.Args) >= 2 && last.Args[1] == want.Arg) {
				vs = append(vs, viol("C14", "new-instance-config:command", "after the %s was edited the new instance of a runs %v, want %s %s", field, last.Args, want.Exe, want.Arg))
			}
			if e := effectiveEnv(last.Env); e["K"] != strings.TrimPrefix(want.Env, "K=") {
				vs = append(vs, viol("C14", "new-instance-config:environment", "new instance of a has K=%s, want %s", e["K"], want.Env))
			}
			if last.Dir != want.Dir {
				vs = append(vs, viol("C14", "new-instance-config:working_dir", "new instance of a runs in %s, want %s", last.Dir, want.Dir))
			}
			for _, e := range tr {
				if e.Proc == key0("b") && (e.Kind == "signal" || e.Kind == "exit") {
					vs = append(vs, viol("C14", "restarted-unchanged:same", "process b is untouched by the edit of a but got a %s", e.Kind))
					break
				}
			}
			return vs
		}
		scs = append(scs, sc)
	}
	// the same configuration sent the way the REST route receives it (encoded as JSON and decoded again, which
	// turns every number of vars / extensions into a float64): nothing has changed
	{
		init := map[string]c14Proc{"a": c14Base(), "b": c14Base()}
		y := c14Project(init)
		for _, n := range []string{"a", "b"} {
			y = strings.Replace(y, "  "+n+":\n", "  "+n+":\n    vars:\n      BIG: 1048576\n      SMALL: 3\n      RATIO: 0.5\n", 1)
		}
		sc := &Scenario{ID: "c14-json-roundtrip:same", YAML: y, K: 0, EnvCost: 1, Horizon: 100 * time.Second,
			Procs: map[string]*ProcScript{"d": {Launches: exits(0)}, "a": {}, "b": {}}}
		ready := func(w *World) bool {
			alive := 0
			for _, f := range w.procs {
				if f.Alive() && f.Name != "d" {
					alive++
				}
			}
			return alive == 2 && w.launches["d#0"] > 0
		}
		sc.API = [][]APICall{{{Op: "fn", Name: "update-json", When: ready, Fn: func(w *World) (string, error) {
			p, err := w.LoadYAML("same.yaml", y)
			if err != nil {
				return "", err
			}
			enc, err := json.Marshal(p)
			if err != nil {
				return "", err
			}
			var p2 types.Project
			if err := json.Unmarshal(enc, &p2); err != nil {
				return "", err
			}
			st, err := w.Runner.UpdateProject(&p2)
			return fmt.Sprint(st), err
		}}}}
		sc.Check = func(w *World) []Violation {
			var vs []Violation
			tr := w.pre()
			ret := findEvent(tr, 0, func(e Event) bool { return e.Kind == "api-ret" })
			if ret < 0 {
				return nil
			}
			if len(w.apiRes) > 0 && w.apiRes[0].Done && w.apiRes[0].Val != "map[]" {
				vs = append(vs, viol("C14", "status-map:same-over-json", "an unchanged project sent as JSON is answered with %s", w.apiRes[0].Val))
			}
			for _, e := range tr {
				if (e.Proc == key0("a") || e.Proc == key0("b")) && (e.Kind == "signal" || e.Kind == "exit") {
					vs = append(vs, viol("C14", "restarted-unchanged:same-over-json", "process %s is unchanged by the update but got a %s", e.Proc, e.Kind))
					break
				}
			}
			return vs
		}
		scs = append(scs, sc)
	}
	// a process added as disabled: true is part of the configuration (listed, startable), just not launched;
	// the same update sent again changes nothing
	// process-compose run a -- extra arguments: launching the main process with its extra arguments leaves its
	// configuration as it was, so an update that restates the configuration changes nothing
	for _, form := range []string{"command", "entrypoint"} {
		for _, u := range []map[string]string{{"a": "same", "b": "same"}, {"a": "same", "b": "changed:args"}} {
			a := c14Base()
			a.Cmd = form == "command"
			mk("main-args:"+form+":a="+u["a"]+",b="+u["b"], []map[string]string{u}, map[string]c14Proc{"a": a, "b": c14Base()})
			sm := scs[len(scs)-1]
			sm.Main, sm.MainArgs = "a", []string{"30", "x y"}
		}
	}
	mk("same,same,+c-disabled", []map[string]string{{"a": "same", "b": "same", "c": "added-disabled"}}, init)
	mk("seq:+c-disabled;same", []map[string]string{{"c": "added-disabled"}, {}}, init)
	// the same, through the REST route itself (POST /project), for a project with a replicated process (its
	// configuration keys b-0 / b-1 differ from its name)
	{
		init := map[string]c14Proc{"a": c14Base(), "b": c14Base()}
		y := strings.Replace(c14Project(init), "  b:\n", "  b:\n    replicas: 2\n", 1)
		sc := &Scenario{ID: "c14-rest:same-with-replicas", YAML: y, K: 0, EnvCost: 1, Horizon: 100 * time.Second,
			Procs: map[string]*ProcScript{"d": {Launches: exits(0)}, "a": {}, "b": {}}}
		ready := func(w *World) bool {
			alive := 0
			for _, f := range w.procs {
				if f.Alive() && f.Name != "d" {
					alive++
				}
			}
			return alive == 3 && w.launches["d#0"] > 0
		}
		sc.API = [][]APICall{{{Op: "fn", Name: "post-project", When: ready, Fn: func(w *World) (string, error) {
			p, err := w.LoadYAML("same.yaml", y)
			if err != nil {
				return "", err
			}
			enc, err := json.Marshal(p)
			if err != nil {
				return "", err
			}
			engine := api.InitRoutes(false, api.NewPcApi(w.Runner))
			req := httptest.NewRequest("POST", "/project", bytes.NewReader(enc))
			req.Header.Set("Content-Type", "application/json")
			rec := httptest.NewRecorder()
			engine.ServeHTTP(rec, req)
			return fmt.Sprintf("%d %s", rec.Code, strings.TrimSpace(rec.Body.String())), nil
		}}}}
		sc.Check = func(w *World) []Violation {
			var vs []Violation
			tr := w.pre()
			if findEvent(tr, 0, func(e Event) bool { return e.Kind == "api-ret" }) < 0 {
				return nil
			}
			if len(w.apiRes) > 0 && w.apiRes[0].Done && w.apiRes[0].Val != "200 {}" {
				vs = append(vs, viol("C14", "status-map:same-over-rest", "an unchanged project posted to /project is answered with %s", w.apiRes[0].Val))
			}
			for _, e := range tr {
				if (baseOf(e.Proc) == "a" || baseOf(e.Proc) == "b") && (e.Kind == "signal" || e.Kind == "exit") {
					vs = append(vs, viol("C14", "restarted-unchanged:same-over-rest", "process %s is unchanged by the update but got a %s", e.Proc, e.Kind))
					break
				}
			}
			return vs
		}
		scs = append(scs, sc)
	}
	// two successive updates
	seconds := []string{"same", "removed", "changed:args", "changed:environment"}
	firsts := []string{"changed:args", "changed:description", "removed"}
	if tier == "thorough" {
		firsts = modes[1:]
		seconds = modes
	}
	for _, m1 := range firsts {
		for _, m2 := range seconds {
			u1 := map[string]string{"a": m1}
			u2 := map[string]string{"a": m2}
			if m1 == "removed" {
				u2 = map[string]string{"a": "added"}
				if m2 != "same" {
					continue
				}
			}
			mk("seq:"+m1+";"+m2, []map[string]string{u1, u2}, init)
		}
	}
	return scs
}

// c14GhostCheck: after the update has been served, a removed process never launches a command again,
// a changed one launches only commands of its new configuration (and does launch one), an unchanged
// one is launched once as if nothing had happened; never two commands of one process side by side.
func c14GhostCheck(w *World, mode string, before, after c14Proc) []Violation {
	var vs []Violation
	tr := w.pre()
	if w.Outcome == "deadlock" {
		return nil
	}
	if findEvent(tr, 0, func(e Event) bool { return e.Kind == "api-call" && strings.HasPrefix(e.Data, "update") }) < 0 {
		return nil // the moment the request waits for never came in this schedule
	}
	ret := findEvent(tr, 0, func(e Event) bool { return e.Kind == "api-ret" && strings.HasPrefix(e.Data, "update") })
	if ret < 0 {
		return []Violation{viol("C14", "update-blocked:"+blockedKinds(w, "api"), "UpdateProject did not return (outcome %s, blocked %v)", w.Outcome, w.Blocked)}
	}
	if tr[ret].Flag {
		vs = append(vs, viol("C14", "update-error", "UpdateProject failed: %s", tr[ret].Data))
	}
	for _, n := range []string{"a", "b"} {
		m, want := mode, after
		if n == "b" {
			m, want = "same", before
		}
		key := key0(n)
		startsAfter, alive, maxAlive := 0, 0, 0
		for i, e := range tr {
			if e.Proc != key {
				continue
			}
			switch e.Kind {
			case "start":
				alive++
				if alive > maxAlive {
					maxAlive = alive
				}
				if i < ret {
					continue
				}
				startsAfter++
				if m == "removed" {
					vs = append(vs, viol("C14", "removed-relaunched", "process %s was removed by the update and launched a command afterwards (t=%v)", n, e.T))
					continue
				}
				for _, f := range w.procs {
					if f.Key == key && f.Inst == e.Inst {
						if len(f.Args) < 2 || f.Args[1] != want.Arg || effectiveEnv(f.Env)["K"] != strings.TrimPrefix(want.Env, "K=") {
							vs = append(vs, viol("C14", "stale-config-launched:"+m, "process %s launched %v K=%s after the update, its configuration says arg %s %s", n, f.Args, effectiveEnv(f.Env)["K"], want.Arg, want.Env))
						}
					}
				}
			case "exit":
				alive--
			}
		}
		if maxAlive > 1 {
			vs = append(vs, viol("C14", "two-instances:"+m, "%d commands of %s alive at once", maxAlive, n))
		}
		if m != "removed" && startsAfter == 0 && w.Outcome != "cutoff" {
			vs = append(vs, viol("C14", "not-launched:"+m, "process %s (%s) never launched a command after the update (outcome %s)", n, m, w.Outcome))
		}
	}
	return vs
}

type c14Step struct {
	before, after map[string]c14Proc
	exp           map[string]string
}

func c14Check(w *World, steps []c14Step) []Violation {
	var vs []Violation
	tr := w.pre()
	if w.Outcome == "deadlock" {
		return nil
	}
	// positions of update calls
	var reqs, rets []int
	var vals []string
	for i, e := range tr {
		if e.Kind == "api-call" && strings.HasPrefix(e.Data, "update") {
			reqs = append(reqs, i)
		}
		if e.Kind == "api-ret" && strings.HasPrefix(e.Data, "update") {
			rets = append(rets, i)
		}
	}
	for _, r := range w.apiRes {
		if r.Done {
			vals = append(vals, r.Val)
			if r.Err != nil {
				vs = append(vs, viol("C14", "update-error", "UpdateProject failed: %v", r.Err))
			}
		}
	}
	if len(rets) != len(steps) {
		vs = append(vs, viol("C14", "update-blocked:"+blockedKinds(w, "api"), "%d of %d UpdateProject calls returned (outcome %s, blocked %v)", len(rets), len(steps), w.Outcome, w.Blocked))
		return vs
	}
	for si, st := range steps {
		end := len(tr)
		if si+1 < len(reqs) {
			end = reqs[si+1]
		}
		// status map
		var want []string
		for n, e := range st.exp {
			if e == "updated:description" {
				continue // not launch relevant: may or may not be reported (see rule below)
			}
			want = append(want, n+"="+strings.SplitN(e, ":", 2)[0])
		}
		sort.Strings(want)
		got := strings.Fields(strings.Trim(vals[si], "[]"))
		var gotF []string
		for _, g := range got {
			n := strings.SplitN(g, "=", 2)[0]
			if st.exp[n] == "updated:description" {
				continue
			}
			gotF = append(gotF, g)
		}
		if strings.Join(gotF, " ") != strings.Join(want, " ") {
			vs = append(vs, viol("C14", "status-map:"+c14ExpClass(st.exp), "UpdateProject returned %v, want %v", got, want))
		}
		for _, n := range []string{"a", "b", "c"} {
			key := key0(n)
			_, was := st.before[n]
			np, is := st.after[n]
			exp := st.exp[n]
			var sigs, starts, exits int
			var lastStart *FProc
			for i := reqs[si]; i < end; i++ {
				e := tr[i]
				if e.Proc != key {
					continue
				}
				switch e.Kind {
				case "signal":
					sigs++
				case "start":
					starts++
				case "exit":
					exits++
				}
			}
			for _, f := range w.procs {
				if f.Key == key {
					lastStart = f
				}
			}
			switch {
			case exp == "" && was: // unchanged
				if sigs+starts+exits > 0 {
					vs = append(vs, viol("C14", "restarted-unchanged:same", "process %s is unchanged by the update but got %d signals, %d starts", n, sigs, starts))
				}
			case exp == "updated:description":
				if sigs+starts > 0 {
					vs = append(vs, viol("C14", "restarted-unchanged:description", "only the description of %s changed but its instance was restarted", n))
				}
			case strings.HasPrefix(exp, "updated:"):
				f := exp[8:]
				if starts == 0 {
					vs = append(vs, viol("C14", "kept-but-changed:"+f, "the %s of %s changed but its running instance was kept", f, n))
				} else if starts > 1 {
					vs = append(vs, viol("C14", "updated-twice:"+f, "%d new instances of %s", starts, n))
				} else if sigs == 0 || exits == 0 {
					vs = append(vs, viol("C14", "old-instance-alive:"+f, "%s relaunched without its old instance being terminated", n))
				} else if lastStart != nil && si == len(steps)-1 {
					if lastStart.cmd.Path != np.Exe && !strings.HasSuffix(lastStart.cmd.Path, "/"+np.Exe) && lastStart.Args[0] != np.Exe {
						vs = append(vs, viol("C14", "new-instance-config:executable", "new instance of %s runs %v, want executable %s", n, lastStart.Args, np.Exe))
					}
					if len(lastStart.Args) < 2 || lastStart.Args[1] != np.Arg {
						vs = append(vs, viol("C14", "new-instance-config:args", "new instance of %s runs %v, want arg %s", n, lastStart.Args, np.Arg))
					}
					if e := effectiveEnv(lastStart.Env); e["K"] != strings.TrimPrefix(np.Env, "K=") {
						vs = append(vs, viol("C14", "new-instance-config:environment", "new instance of %s has K=%s, want %s", n, e["K"], np.Env))
					}
					if lastStart.Dir != np.Dir {
						vs = append(vs, viol("C14", "new-instance-config:working_dir", "new instance of %s runs in %s, want %s", n, lastStart.Dir, np.Dir))
					}
				}
			case exp == "removed":
				if exits == 0 {
					vs = append(vs, viol("C14", "removed-alive", "removed process %s was not terminated", n))
				}
			case exp == "added" && is && np.Disabled:
				if starts > 0 {
					vs = append(vs, viol("C14", "added-disabled-started", "process %s was added as disabled: true and launched", n))
				}
			case exp == "added" && is:
				if starts == 0 {
					vs = append(vs, viol("C14", "added-not-started", "added process %s was not launched", n))
				}
			}
		}
	}
	// configured set at the end
	last := steps[len(steps)-1].after
	want := []string{"d"}
	for n := range last {
		want = append(want, n)
	}
	sort.Strings(want)
	names, _ := w.Runner.GetLexicographicProcessNames()
	if strings.Join(names, ",") != strings.Join(want, ",") {
		vs = append(vs, viol("C14", "config-set", "configured processes %v, want %v", names, want))
	}
	return vs
}

func c14ExpClass(exp map[string]string) string {
	var c []string
	for _, e := range exp {
		c = append(c, e)
	}
	sort.Strings(c)
	return strings.Join(c, "+")
}
