// Package fastg reads the current goroutine id from runtime.g directly. The
// field offset is calibrated at start-up against the id parsed from
// runtime.Stack; if calibration fails Goid is nil and the caller keeps its
// slow path.
package fastg

import (
	"bytes"
	"runtime"
	"strconv"
	"unsafe"
)

func getg() uintptr

var off uintptr

// Goid is nil when calibration failed.
var Goid func() uint64

func slow() uint64 {
	var buf [64]byte
	n := runtime.Stack(buf[:], false)
	b := buf[10:n]
	i := bytes.IndexByte(b, ' ')
	if i < 0 {
		return 0
	}
	id, _ := strconv.ParseUint(string(b[:i]), 10, 64)
	return id
}

func candidates() map[uintptr]bool {
	want := slow()
	g := getg()
	m := map[uintptr]bool{}
	for o := uintptr(96); o < 400; o += 8 {
		if *(*uint64)(unsafe.Pointer(g + o)) == want {
			m[o] = true
		}
	}
	return m
}

func init() {
	res := make(chan map[uintptr]bool, 4)
	for i := 0; i < 4; i++ {
		go func() { res <- candidates() }()
	}
	common := <-res
	for i := 1; i < 4; i++ {
		m := <-res
		for o := range common {
			if !m[o] {
				delete(common, o)
			}
		}
	}
	if len(common) != 1 {
		return
	}
	for o := range common {
		off = o
	}
	Goid = func() uint64 { return *(*uint64)(unsafe.Pointer(getg() + off)) }
}
