package vh

// C17 Environment: expansion/escaping at load; precedence and injected vars at launch.

import (
	"fmt"
	"os"
	"path/filepath"
	"strings"
	"time"

	"github.com/f1bonacc1/process-compose/src/loader"
)

func init() { registry["C17"] = &propDef{e1: c17Scenarios, e2: c17E2} }

type c17Tok struct {
	Text string
	Ref  func(val string, set bool) string
}

var c17Toks = []c17Tok{
	{"lit", func(v string, s bool) string { return "lit" }},
	{"$VHA", func(v string, s bool) string { return v }},
	{"${VHA}", func(v string, s bool) string { return v }},
	{"$$VHA", func(v string, s bool) string { return "$VHA" }},
	{"$$", func(v string, s bool) string { return "$" }},
	{"$${VHA}", func(v string, s bool) string { return "${VHA}" }},
	{"$$$VHA", func(v string, s bool) string { return "$" + v }},
	{"${VHU}", func(v string, s bool) string { return "" }},
	{"$", func(v string, s bool) string { return "$" }},
}

type c17Input struct {
	Tokens  []string `json:"tokens"`
	VarMode string   `json:"VHA"` // set | unset | dotenv
	Disable bool     `json:"disable_env_expansion"`
	Field   string   `json:"field"`
}

func c17E2(tier string, o *E2Out) {
	o.Rule = "E2 (load time): configuration values built from <=2 (thorough 3) tokens of {lit, $A, ${A}, $$A, $$, $${A}, $$$A, ${U}, $} joined by ',', placed in command / environment value / description, with A set in the environment, unset, defined only in a .env file, or in both with different values (the environment wins), with and without disable_env_expansion; oracle = reference expander. Non-trivial = at least one token contains '$'."
	o.Exhaustive = true
	dir, _ := os.MkdirTemp("", "vh-c17-")
	defer os.RemoveAll(dir)
	maxTok := 2
	if tier == "thorough" {
		maxTok = 3
	}
	var seqs [][]int
	var gen func(cur []int)
	gen = func(cur []int) {
		if len(cur) > 0 {
			seqs = append(seqs, append([]int(nil), cur...))
		}
		if len(cur) == maxTok {
			return
		}
		for i := range c17Toks {
			gen(append(cur, i))
		}
	}
	gen(nil)
	idx := 0
	for _, seq := range seqs {
		for _, vm := range []string{"set", "unset", "dotenv", "both"} {
			for _, dis := range []bool{false, true} {
				for _, val := range []string{"val-a", "pa$$wd", "end$", "${VHU}x"} {
					if (vm == "unset" || vm == "both") && val != "val-a" {
						continue
					}
					if vm == "dotenv" && val != "val-a" && val != "pa$$wd" {
						continue // godotenv has its own expansion rules for $: only plain and $$ values
					}
					idx++
					if !o.mine(idx) {
						continue
					}
					if o.expired() {
						o.Exhaustive = false
						return
					}
					c17One(o, dir, seq, vm, dis, val)
				}
			}
		}
	}
}

func c17One(o *E2Out, dir string, seq []int, vm string, dis bool, value string) {
	var toks, want []string
	val, set := "", false
	switch vm {
	case "set":
		val, set = value, true
	case "dotenv", "both":
		val, set = value, true
	}
	nontrivial := false
	for _, i := range seq {
		toks = append(toks, c17Toks[i].Text)
		if strings.Contains(c17Toks[i].Text, "$") {
			nontrivial = true
		}
		if dis {
			want = append(want, c17Toks[i].Text)
		} else {
			want = append(want, c17Toks[i].Ref(val, set))
		}
	}
	text := strings.Join(toks, ",")
	expect := strings.Join(want, ",")
	in := c17Input{Tokens: toks, VarMode: vm + ":" + value, Disable: dis}
	var b strings.Builder
	b.WriteString("version: \"0.5\"\n")
	if dis {
		b.WriteString("disable_env_expansion: true\n")
	}
	fmt.Fprintf(&b, "processes:\n  p:\n    command: '%s'\n    description: '%s'\n    environment:\n      - 'K=%s'\n", text, text, text)
	fn := filepath.Join(dir, "pc.yaml")
	os.WriteFile(fn, []byte(b.String()), 0o644)
	envFile := filepath.Join(dir, "dotenv")
	os.WriteFile(envFile, []byte("VHA='"+value+"'\n"), 0o644)
	os.Unsetenv("VHA")
	os.Unsetenv("VHU")
	opts := &loader.LoaderOptions{FileNames: []string{fn}, IsInternalLoader: true}
	switch vm {
	case "set":
		os.Setenv("VHA", value)
		opts.DisableDotenv(true)
	case "unset":
		opts.DisableDotenv(true)
	case "dotenv":
		opts.EnvFileNames = []string{envFile}
	case "both":
		// defined in the environment and, differently, in the .env file: the environment wins
		os.WriteFile(envFile, []byte("VHA='from-the-dotenv-file'\n"), 0o644)
		os.Setenv("VHA", value)
		opts.EnvFileNames = []string{envFile}
	}
	defer os.Unsetenv("VHA")
	prj, err := loader.Load(opts)
	o.Evaluations++
	if nontrivial {
		o.Distinct++
	}
	if err != nil {
		o.violation("C17", "load-error", fmt.Sprintf("file does not load: %v", err), in)
		return
	}
	p := prj.Processes["p"]
	class := func() string {
		for _, t := range toks {
			if t != "lit" {
				return t
			}
		}
		return "lit"
	}
	check := func(field, got string) {
		if got != expect {
			in.Field = field
			sig := "expansion:" + class()
			if strings.Contains(value, "$") {
				sig += ":value-with-dollar"
			}
			if dis {
				sig = "expansion-disabled:" + class()
			}
			o.violation("C17", sig, fmt.Sprintf("%s: %q loaded as %q, want %q (VHA %s, disable_env_expansion=%v)", field, text, got, expect, vm, dis), in)
		}
	}
	check("command", p.Command)
	check("description", p.Description)
	if len(p.Environment) != 1 {
		o.violation("C17", "expansion:env-entry-count", fmt.Sprintf("environment %v", p.Environment), in)
	} else {
		check("environment", strings.TrimPrefix(p.Environment[0], "K="))
	}
	if len(toks) == 2 && vm == "set" && !dis {
		o.sample(fmt.Sprintf("%q -> %q", text, p.Command))
	}
}

// ---- launch time (E1): effective environment and working directory of every command ----

func effectiveEnv(env []string) map[string]string {
	m := map[string]string{}
	for _, kv := range env {
		if i := strings.Index(kv, "="); i >= 0 {
			m[kv[:i]] = kv[i+1:] // exec uses the last value of a duplicate key
		}
	}
	return m
}

// c17Neighbours are inherited variables named like the injected / configured ones plus or minus a few characters.
var c17Neighbours = map[string]string{"PC_PROC_NAMESPACE": "blue", "PC_REPLICA_NUM_BASE": "8000", "PC_PROC": "pp", "PC_REPLICA": "rr", "VHX2": "x2", "VH": "vh", "VHGG": "gg", "VHPP": "ppp"}

func c17Scenarios(tier string) []*Scenario {
	var scs []*Scenario
	// X is defined in every subset of {inherited, env_cmds, global, per-process}
	for mask := 0; mask < 16; mask++ {
		for _, replicas := range []int{1, 3} {
			for _, nestedTty := range []int{0, 1, 2} {
				nested, tty := nestedTty == 1, nestedTty == 2
				if tier != "thorough" && nested && mask != 0 && mask != 15 {
					continue
				}
				if tty && replicas != 1 && tier != "thorough" {
					continue // is_tty: the command runs on a pseudo terminal (another commander)
				}
				inh, ecmd, glob, per := mask&1 != 0, mask&2 != 0, mask&4 != 0, mask&8 != 0
				var global []string
				if glob {
					global = append(global, "environment:", "  - 'VHX=global'", "  - 'VHG=g'")
				}
				if ecmd {
					global = append(global, "env_cmds:", "  VHX: \"envcmd-x\"", "  VHE: \"envcmd-e\"", "  VHZ: \"envcmd-empty\"")
				}
				pc := PC{Name: "p", Lines: []string{"working_dir: \"/\""}}
				if tty {
					pc.Lines = append(pc.Lines, "is_tty: true")
				}
				if per {
					pc.Lines = append(pc.Lines, "environment:", "  - 'VHX=perproc'", "  - 'VHP=p'")
				}
				if replicas > 1 {
					pc.Lines = append(pc.Lines, fmt.Sprintf("replicas: %d", replicas))
				}
				// every replica fails once and is relaunched by its policy: the relaunch gets the same environment
				pc.Restart = "on_failure"
				sc := &Scenario{
					ID:         fmt.Sprintf("c17-launch-mask%d-r%d-nested%v-tty%v", mask, replicas, nested, tty),
					YAML:       projectYAML(global, pc),
					Procs:      map[string]*ProcScript{"p": {Launches: exits(1, 0)}},
					TickBudget: 2,
					EnvCmdOut:  map[string]string{"envcmd-x": "fromcmd\n", "envcmd-e": "e\n", "envcmd-empty": "\n"},
					K:          0,
					Env:        map[string]string{},
				}
				if inh {
					sc.Env["VHX"] = "inherited"
				}
				sc.Env["VHI"] = "i"
				// inherited variables whose names merely extend (or are a prefix of) the names the code injects
				// or the configuration defines are different variables
				for k, v := range c17Neighbours {
					sc.Env[k] = v
				}
				sc.Env["VHZ"] = "inherited-z" // an env_cmds command that prints nothing defines the variable as empty
				if nested {
					sc.Env["PC_PROC_NAME"] = "outer"
					sc.Env["PC_REPLICA_NUM"] = "7"
				}
				sc.Check = func(w *World) []Violation {
					var vs []Violation
					n := 0
					for _, f := range w.procs {
						if strings.HasPrefix(f.Key, "?") {
							// the fake OS names a command after the injected PC_PROC_NAME / PC_REPLICA_NUM
							vs = append(vs, viol("C17", "injected:none", "a command was launched without the injected variables: %v (environment of %d entries)", f.Args, len(f.Env)))
							continue
						}
						if f.Name != "p" && f.Name != "outer" {
							continue
						}
						n++
						e := effectiveEnv(f.Env)
						num := f.Num
						if nested {
							// identify the replica by its start order when the injected values are shadowed
						}
						if e["PC_PROC_NAME"] != "p" {
							vs = append(vs, viol("C17", "injected:PC_PROC_NAME", "command of p receives PC_PROC_NAME=%q (inherited environment has PC_PROC_NAME=%v)", e["PC_PROC_NAME"], nested))
						}
						if !nested && e["PC_REPLICA_NUM"] != fmt.Sprint(num) {
							vs = append(vs, viol("C17", "injected:PC_REPLICA_NUM", "replica %d receives PC_REPLICA_NUM=%q", num, e["PC_REPLICA_NUM"]))
						}
						if nested && e["PC_REPLICA_NUM"] == "7" {
							vs = append(vs, viol("C17", "injected:PC_REPLICA_NUM", "a replica of p receives the inherited PC_REPLICA_NUM=7"))
						}
						want, layer := "", ""
						switch {
						case per:
							want, layer = "perproc", "per-process"
						case glob && !ecmd:
							want, layer = "global", "global"
						case ecmd && !glob:
							want, layer = "fromcmd", "env_cmds"
						case ecmd && glob:
							want, layer = e["VHX"], "global-or-env_cmds" // precedence between the two is not specified
							if want != "global" && want != "fromcmd" {
								want = "global"
							}
						case inh:
							want, layer = "inherited", "inherited"
						}
						if got, ok := e["VHX"]; got != want || (layer == "" && ok) {
							vs = append(vs, viol("C17", "precedence:"+layer, "VHX=%q, want %q from the %s layer (inherited=%v env_cmds=%v global=%v per-process=%v)", got, want, layer, inh, ecmd, glob, per))
						}
						if e["VHI"] != "i" {
							vs = append(vs, viol("C17", "precedence:inherited-lost", "inherited variable VHI missing"))
						}
						for k, v := range c17Neighbours {
							if got, ok := e[k]; !ok || got != v {
								vs = append(vs, viol("C17", "precedence:inherited-lost:"+k, "inherited variable %s=%q reaches the command as %q (defined=%v); its name only resembles an injected or configured one", k, v, got, ok))
							}
						}
						if glob && e["VHG"] != "g" {
							vs = append(vs, viol("C17", "precedence:global-lost", "global variable VHG missing"))
						}
						if per && e["VHP"] != "p" {
							vs = append(vs, viol("C17", "precedence:per-process-lost", "per-process variable VHP missing"))
						}
						if z, ok := e["VHZ"]; ecmd && (!ok || z != "") {
							vs = append(vs, viol("C17", "precedence:env_cmds-empty", "env_cmds variable VHZ (its command prints nothing) is %q, defined=%v; want defined and empty, over the inherited value", z, ok))
						}
						if ecmd && e["VHE"] != "e" {
							vs = append(vs, viol("C17", "precedence:env_cmds-lost", "env_cmds variable VHE=%q, want \"e\"", e["VHE"]))
						}
						if f.Dir != "/" {
							vs = append(vs, viol("C17", "dir", "working directory %q, want /", f.Dir))
						}
					}
					if n != 2*replicas && w.Outcome == "completed" {
						vs = append(vs, viol("C17", "launch-count", "%d commands launched, want %d (each replica once more after its failure)", n, 2*replicas))
					}
					return vs
				}
				scs = append(scs, sc)
			}
		}
	}
	// replicas added by a scale request (one at a time, two at once, from one replica or from two): each command
	// runs in its own templated working directory with its own replica number
	for _, step := range [][2]int{{1, 2}, {1, 3}, {2, 4}} {
		step := step
		pc := PC{Name: "p", Lines: []string{"working_dir: \"@DIR@/r{{.PC_REPLICA_NUM}}\""}}
		if step[0] > 1 {
			pc.Lines = append(pc.Lines, fmt.Sprintf("replicas: %d", step[0]))
		}
		files := map[string]string{}
		for i := 0; i < 4; i++ {
			files[fmt.Sprintf("r%d/.keep", i)] = ""
		}
		name := "p"
		if step[0] > 1 {
			name = "p-0"
		}
		up := func(w *World) bool { return len(w.procs) >= step[0] }
		sc := &Scenario{
			ID:    fmt.Sprintf("c17-scale-%d-to-%d", step[0], step[1]),
			YAML:  projectYAML(nil, pc),
			Files: files,
			Procs: map[string]*ProcScript{"p": {}},
			K:     0, EnvCost: 1, TickBudget: 1,
			API: [][]APICall{{{Op: "scale", Name: name, N: step[1], When: up}}},
		}
		sc.Check = func(w *World) []Violation {
			var vs []Violation
			n := 0
			for _, f := range w.procs {
				if strings.HasPrefix(f.Key, "?") {
					vs = append(vs, viol("C17", "injected:none", "a command was launched without the injected variables: %v", f.Args))
					continue
				}
				n++
				if want := filepath.Join(w.dir, fmt.Sprintf("r%d", f.Num)); f.Dir != want {
					vs = append(vs, viol("C17", "dir:replica", "replica %d (scale %d -> %d) runs in %s, its configured working directory is %s", f.Num, step[0], step[1], strings.TrimPrefix(f.Dir, w.dir), strings.TrimPrefix(want, w.dir)))
				}
				if e := effectiveEnv(f.Env); e["PC_REPLICA_NUM"] != fmt.Sprint(f.Num) {
					vs = append(vs, viol("C17", "injected:PC_REPLICA_NUM", "replica %d receives PC_REPLICA_NUM=%q", f.Num, e["PC_REPLICA_NUM"]))
				}
			}
			if findEvent(w.pre(), 0, func(e Event) bool { return e.Kind == "api-ret" && !e.Flag }) >= 0 && n < step[1] && w.Outcome != "deadlock" {
				vs = append(vs, viol("C17", "launch-count", "%d commands launched after scaling %d -> %d", n, step[0], step[1]))
			}
			return vs
		}
		scs = append(scs, sc)
	}
	// two processes with their own per-process variables, every size of the global list (g entries
	// from the file, e more from env_cmds): each command receives its own process's variables at the
	// first launch and at the relaunch, whichever process was created or launched first
	for g := 0; g <= 3; g++ {
		for e := 0; e <= 3; e++ {
			if tier != "thorough" && g+e > 4 {
				continue
			}
			g, e := g, e
			var global []string
			if g > 0 {
				global = append(global, "environment:")
				for i := 0; i < g; i++ {
					global = append(global, fmt.Sprintf("  - 'VHG%d=g%d'", i, i))
				}
			}
			out := map[string]string{}
			if e > 0 {
				global = append(global, "env_cmds:")
				for i := 0; i < e; i++ {
					global = append(global, fmt.Sprintf("  VHE%d: \"envcmd-%d\"", i, i))
					out[fmt.Sprintf("envcmd-%d", i)] = fmt.Sprintf("e%d\n", i)
				}
			}
			mk := func(n string) PC {
				return PC{Name: n, Restart: "on_failure", Lines: []string{"environment:", "  - 'VHX=own-" + n + "'", "  - 'VHP" + n + "=" + n + "'"}}
			}
			sc := &Scenario{
				ID:         fmt.Sprintf("c17-two-g%d-e%d", g, e),
				YAML:       projectYAML(global, mk("p"), mk("q")),
				Procs:      map[string]*ProcScript{"p": {Launches: exits(1, 0)}, "q": {Launches: exits(1, 0)}},
				TickBudget: 2,
				EnvCmdOut:  out,
				K:          1,
				Env:        map[string]string{"VHI": "i"},
			}
			sc.Check = func(w *World) []Violation {
				var vs []Violation
				for _, f := range w.procs {
					if f.Name != "p" && f.Name != "q" {
						continue
					}
					other := "q"
					if f.Name == "q" {
						other = "p"
					}
					ev := effectiveEnv(f.Env)
					if ev["VHX"] != "own-"+f.Name || ev["VHP"+f.Name] != f.Name {
						vs = append(vs, viol("C17", "own-variables", "launch %d of %s receives VHX=%q VHP%s=%q (global list: %d from the file, %d from env_cmds)", f.Inst, f.Name, ev["VHX"], f.Name, ev["VHP"+f.Name], g, e))
					}
					if _, ok := ev["VHP"+other]; ok {
						vs = append(vs, viol("C17", "foreign-variables", "launch %d of %s receives the per-process variable of %s", f.Inst, f.Name, other))
					}
					for i := 0; i < g; i++ {
						if ev[fmt.Sprintf("VHG%d", i)] != fmt.Sprintf("g%d", i) {
							vs = append(vs, viol("C17", "precedence:global-lost", "global variable VHG%d missing for %s", i, f.Name))
						}
					}
					for i := 0; i < e; i++ {
						if ev[fmt.Sprintf("VHE%d", i)] != fmt.Sprintf("e%d", i) {
							vs = append(vs, viol("C17", "precedence:env_cmds-lost", "env_cmds variable VHE%d=%q for %s", i, ev[fmt.Sprintf("VHE%d", i)], f.Name))
						}
					}
				}
				return vs
			}
			scs = append(scs, sc)
		}
	}
	// the value of a per-process variable changed by a live update (nothing else changes): every command of the
	// process launched once the update has been served receives the configured - new - value, the untouched
	// variable next to it keeps its own
	for _, pol := range []string{"always", "on_failure"} {
		mk := func(v string) string {
			return projectYAML([]string{"environment:", "  - 'VHG=g'"},
				PC{Name: "p", Restart: pol, Backoff: 1, Lines: []string{"environment:", "  - 'VHX=" + v + "'", "  - 'VHK=keep'"}}, PC{Name: "x"})
		}
		sc := &Scenario{
			ID:         "c17-update-value-" + pol,
			YAML:       mk("old"),
			Procs:      map[string]*ProcScript{"p": {Launches: exits(1)}, "x": {}},
			K:          0,
			TickBudget: 4,
			Horizon:    30 * time.Second,
		}
		launched := func(w *World) bool { return w.launches["p#0"] > 0 }
		sc.API = [][]APICall{{{Op: "update", YAML: mk("new"), When: launched}}}
		sc.Check = func(w *World) []Violation {
			var vs []Violation
			tr := w.pre()
			ret := findEvent(tr, 0, func(e Event) bool { return e.Kind == "api-ret" && !e.Flag })
			if ret < 0 {
				return nil
			}
			for i := ret; i < len(tr); i++ {
				if tr[i].Kind != "start" || tr[i].Proc != "p#0" {
					continue
				}
				for _, f := range w.procs {
					if f.Key != "p#0" || f.Inst != tr[i].Inst {
						continue
					}
					ev := effectiveEnv(f.Env)
					if ev["VHX"] != "new" {
						vs = append(vs, viol("C17", "per-process:stale-after-update", "launch %d of p, after the update that sets VHX=new had been served, receives VHX=%q", f.Inst, ev["VHX"]))
					}
					if ev["VHK"] != "keep" || ev["VHG"] != "g" {
						vs = append(vs, viol("C17", "per-process:lost-after-update", "launch %d of p after the update receives VHK=%q VHG=%q", f.Inst, ev["VHK"], ev["VHG"]))
					}
				}
			}
			return vs
		}
		scs = append(scs, sc)
	}
	return scs
}
