package vh

// Deviation-bounded depth-first search over real executions of one scenario.

import (
	"encoding/json"
	"fmt"
	"os"
	"strings"
	"testing"
	"time"
)

type FoundViolation struct {
	Scenario string   `json:"scenario"`
	Prop     string   `json:"property"`
	Sig      string   `json:"signature"`
	Msg      string   `json:"message"`
	Choices  []int    `json:"choices"`
	Labels   []string `json:"labels"`
	Trace    []string `json:"trace"`
	Cost     int      `json:"deviations"`
	Repro    string   `json:"repro,omitempty"`
	Input    any      `json:"input,omitempty"`
}

type ScenarioStats struct {
	Scenario    string           `json:"scenario"`
	Note        string           `json:"note,omitempty"`
	Execs       int              `json:"executions"`
	ExecsTotal  int              `json:"executions_all_passes"`
	NOutcomes   int              `json:"distinct_outcomes"`
	Steps       int              `json:"transitions"`
	States      int              `json:"states"`
	Outcomes    map[string]int   `json:"outcomes,omitempty"`
	K           int              `json:"k_completed"`
	Exhaustive  bool             `json:"exhaustive"`
	MaxPoints   int              `json:"max_choice_points"`
	Leaked      int              `json:"leaked"`
	Divergences int              `json:"replay_divergences"`
	DivSample   string           `json:"divergence_sample,omitempty"`
	Replayed    int              `json:"replayed"`
	Violations  []FoundViolation `json:"violations,omitempty"`
	Sample      []string         `json:"sample,omitempty"`
	WallMs      int64            `json:"wall_ms"`
	RssMB       int64            `json:"rss_mb"` // resident set size of the worker when the scenario was done
}

type Explorer struct {
	t        *testing.T
	sc       *Scenario
	deadline time.Time
	stats    ScenarioStats
	states   map[uint64]bool
	sigSeen  map[string]bool
	maxViol  int
	replayN  int
}

func outcomeClass(w *World) string {
	// distinct observable outcomes: outcome + sequence of start/exit/run-ret events
	var b strings.Builder
	b.WriteString(w.Outcome)
	for _, e := range w.trace {
		switch e.Kind {
		case "cleanup":
			return b.String()
		case "start", "exit", "startfail":
			fmt.Fprintf(&b, "|%s:%s:%d", e.Kind[:2], e.Proc, e.Code)
		case "run-ret":
			fmt.Fprintf(&b, "|ret:%d", e.Code)
		case "api-ret":
			fmt.Fprintf(&b, "|api:%v", e.Flag)
		case "state":
			fmt.Fprintf(&b, "|%s=%s", e.Proc, e.Data)
		}
	}
	return b.String()
}

// curFile receives the scenario and choice list of the execution that is about
// to run, so that the driver has the schedule if the worker process dies.
var curFile *os.File

// curProp is the property id of the running check (generic violations are reported under it).
var curProp string

func noteCur(sc *Scenario, prefix []int) {
	if curFile == nil {
		return
	}
	b, _ := json.Marshal(map[string]any{"scenario": sc.ID, "choices": prefix})
	b = append(b, '\n')
	curFile.Truncate(0)
	curFile.WriteAt(b, 0)
}

func (e *Explorer) runOne(prefix []int) *World {
	noteCur(e.sc, prefix)
	w := RunExecution(e.t, e.sc, prefix)
	e.stats.Execs++
	e.stats.Steps += w.Steps
	for h := range w.states {
		e.states[h] = true
	}
	if len(w.Points) > e.stats.MaxPoints {
		e.stats.MaxPoints = len(w.Points)
	}
	if w.Extra["leaked"] == true {
		e.stats.Leaked++
	}
	return w
}

func chosen(w *World) []int {
	c := make([]int, len(w.Points))
	for i, p := range w.Points {
		c[i] = p.Chosen
	}
	// trailing zeros are implied
	n := len(c)
	for n > 0 && c[n-1] == 0 {
		n--
	}
	return c[:n]
}

func chosenLabels(w *World) []string {
	var l []string
	for _, p := range w.Points {
		l = append(l, p.Labels[p.Chosen])
	}
	return l
}

func traceStrings(w *World) []string {
	var l []string
	for _, ev := range w.trace {
		l = append(l, ev.String())
	}
	return l
}

// fingerprint of an execution for the determinism guard
func fingerprint(w *World) string {
	var b strings.Builder
	for _, p := range w.Points {
		b.WriteString(strings.Join(p.Labels, ","))
		fmt.Fprintf(&b, "=>%d;", p.Chosen)
	}
	b.WriteString("||")
	for _, ev := range w.trace {
		b.WriteString(ev.String())
		b.WriteString(";")
	}
	b.WriteString(w.Outcome)
	return b.String()
}

func (e *Explorer) check(w *World, cost int) {
	oc := outcomeClass(w)
	e.stats.Outcomes[oc]++
	var vs []Violation
	vs = append(vs, genericCheck(w)...)
	if e.sc.Check != nil {
		vs = append(vs, e.sc.Check(w)...)
	}
	for _, v := range vs {
		key := v.Prop + " " + v.Sig
		if e.sigSeen[key] {
			continue
		}
		e.sigSeen[key] = true
		fv := FoundViolation{Scenario: e.sc.ID, Prop: v.Prop, Sig: v.Sig, Msg: v.Msg, Choices: chosen(w),
			Labels: chosenLabels(w), Trace: traceStrings(w), Cost: cost}
		// determinism guard: believe it only after 5 identical replays
		fp := fingerprint(w)
		ok := 0
		for i := 0; i < 5; i++ {
			w2 := RunExecution(e.t, e.sc, fv.Choices)
			e.stats.Replayed++
			if fingerprint(w2) == fp {
				ok++
			} else {
				e.stats.Divergences++
			}
		}
		fv.Repro = fmt.Sprintf("%d/5", ok)
		e.stats.Violations = append(e.stats.Violations, fv)
	}
}

// genericCheck: terminal oracle shared by all E1 checks.
func genericCheck(w *World) []Violation {
	var vs []Violation
	if w.Outcome == "deadlock" {
		vs = append(vs, Violation{Prop: curProp, Sig: "deadlock:" + blockedKinds(w, ""), Msg: fmt.Sprintf("threads wait for mutexes that are never released: %v", w.Blocked)})
	}
	if curProp == "C20" && w.sched != nil {
		// data races on shared maps: two accesses, one of them a write, that nothing the shims see orders
		for _, r := range w.sched.Races {
			a, b := r.SiteA, r.SiteB
			if b < a {
				a, b = b, a
			}
			vs = append(vs, Violation{Prop: "C20", Sig: "map-race:" + r.Field + ":" + a + "|" + b,
				Msg: fmt.Sprintf("map %s is accessed by %s and by %s without any happens-before order between the two (lock, wait group, once, condition variable, atomic, goroutine start)", r.Field, r.SiteA, r.SiteB)})
		}
		// uses of a primitive on which the real one panics, recorded by the shims
		for _, m := range w.sched.Misuses {
			vs = append(vs, Violation{Prop: "C20", Sig: "sync-misuse:" + m,
				Msg: "the real sync primitive panics in this schedule: " + m})
		}
	}
	return vs
}

// rssBytes is the resident set size of this worker (0 if /proc is not readable).
func rssBytes() int64 {
	b, err := os.ReadFile("/proc/self/statm")
	if err != nil {
		return 0
	}
	f := strings.Fields(string(b))
	if len(f) < 2 {
		return 0
	}
	var pages int64
	fmt.Sscan(f[1], &pages)
	return pages * int64(os.Getpagesize())
}

// memLimit: goroutines of executions whose bubble ended while they were still blocked can never be collected,
// so a worker grows with the number of executions. Above the hard limit the exploration of the current scenario
// stops like at its deadline (reported as not exhaustive); above the soft limit the worker asks to be restarted
// between two scenarios.
func memLimit(env string, def int64) int64 {
	if v := os.Getenv(env); v != "" {
		var n int64
		if _, err := fmt.Sscan(v, &n); err == nil && n > 0 {
			return n << 20
		}
	}
	return def
}

var (
	memHard     = memLimit("VH_MEM_HARD_MB", 6<<30)
	memSoft     = memLimit("VH_MEM_SOFT_MB", 2<<30)
	memChecks   int
	memExceeded bool
	memBase     int64 // resident set size of the worker before its first scenario (the scenario list itself can be large)
)

// memGrowth is what the worker has grown by since it began to explore.
func memGrowth() int64 { return rssBytes() - memBase }

func (e *Explorer) explore(prefix []int, spent int, k int) bool {
	if time.Now().After(e.deadline) || memExceeded {
		return false
	}
	if memChecks++; memChecks%128 == 0 && memGrowth() > memHard {
		memExceeded = true
		return false
	}
	w := e.runOne(prefix)
	if len(w.Points) < len(prefix) {
		panic(fmt.Sprintf("REPLAY-DIVERGENCE: execution ended after %d points, prefix has %d", len(w.Points), len(prefix)))
	}
	e.check(w, spent)
	if os.Getenv("VH_TRACE") != "" && len(prefix) == 0 {
		fmt.Fprintf(os.Stderr, "TRACE %s outcome=%s\n%s\n", e.sc.ID, w.Outcome, strings.Join(traceStrings(w), "\n"))
	}
	// determinism sampling: replay every 64th execution once
	e.replayN++
	if e.replayN%64 == 0 {
		w2 := RunExecution(e.t, e.sc, prefix)
		e.stats.Replayed++
		f1, f2 := fingerprint(w), fingerprint(w2)
		w2.release()
		if f1 != f2 {
			e.stats.Divergences++
			if e.stats.DivSample == "" {
				a, b := strings.Split(f1, ";"), strings.Split(f2, ";")
				for i := 0; i < len(a) && i < len(b); i++ {
					if a[i] != b[i] {
						lo := i - 3
						if lo < 0 {
							lo = 0
						}
						e.stats.DivSample = fmt.Sprintf("prefix=%v at %d:\n A: %s\n B: %s", prefix, i, strings.Join(a[lo:i+1], " ; "), strings.Join(b[lo:i+1], " ; "))
						break
					}
				}
			}
		}
	}
	if len(e.stats.Sample) == 0 || (e.stats.Execs == 50) {
		e.stats.Sample = chosenLabels(w)
	}
	points := w.Points
	w.release()
	w = nil
	complete := true
	for i := len(prefix); i < len(points); i++ {
		p := points[i]
		for alt := 1; alt < p.N; alt++ {
			c := spent + p.Costs[alt]
			if c > k {
				continue
			}
			np := make([]int, i+1)
			for j := 0; j < i; j++ {
				np[j] = points[j].Chosen
			}
			np[i] = alt
			if !e.explore(np, c, k) {
				complete = false
				return false
			}
		}
	}
	return complete
}

// ExploreScenario runs the bounded search for one scenario, iterating the
// deviation bound 0..sc.K; the statistics are those of the last completed pass.
func ExploreScenario(t *testing.T, sc *Scenario, deadline time.Time) ScenarioStats {
	var last ScenarioStats
	last = ScenarioStats{Scenario: sc.ID, Note: sc.Note, Outcomes: map[string]int{}, K: -1}
	sigSeen := map[string]bool{}
	var viols []FoundViolation
	total, replayed, diverged, leaked := 0, 0, 0, 0
	start := time.Now()
	defer sc.Cleanup()
	for k := 0; k <= sc.K; k++ {
		e := &Explorer{t: t, sc: sc, deadline: deadline, states: map[uint64]bool{}, sigSeen: sigSeen}
		e.stats = ScenarioStats{Scenario: sc.ID, Note: sc.Note, Outcomes: map[string]int{}}
		done := e.explore(nil, 0, k)
		total += e.stats.Execs
		replayed += e.stats.Replayed
		diverged += e.stats.Divergences
		leaked += e.stats.Leaked
		viols = append(viols, e.stats.Violations...)
		if !done {
			if last.K < 0 {
				last = e.stats
				last.States = len(e.states)
			}
			last.Exhaustive = false
			break
		}
		last = e.stats
		last.K = k
		last.Exhaustive = true
		last.States = len(e.states)
	}
	last.ExecsTotal = total
	last.Replayed, last.Divergences, last.Leaked = replayed, diverged, leaked
	last.Violations = viols
	last.WallMs = time.Since(start).Milliseconds()
	last.RssMB = rssBytes() >> 20
	last.NOutcomes = len(last.Outcomes)
	last.Outcomes = nil
	return last
}

func toJSON(v any) string {
	b, _ := json.Marshal(v)
	return string(b)
}
