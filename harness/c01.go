package vh

// C01 Dependency gating: no launch before every depends_on condition is met.

import (
	"fmt"
	"time"
)

func init() { registry["C01"] = &propDef{e1: c01Scenarios} }

func graphScenario(prefix string, nodes []GNode, k int, api ...[]APICall) *Scenario {
	yaml, procs, aux := buildGraph(nodes, nil)
	sc := &Scenario{ID: prefix + "-" + graphID(nodes), YAML: yaml, Procs: procs, Aux: aux, K: k, TickBudget: 1, API: api}
	for _, n := range nodes {
		if n.Probe != "" {
			sc.Horizon = 6 * time.Second
			sc.TickBudget = 2
		}
	}
	for _, calls := range api {
		for _, c := range calls {
			sc.ID += "-" + c.String()
		}
	}
	return sc
}

func withDeps(n GNode, deps map[string]string) GNode {
	n.Deps = deps
	return n
}

func c01Scenarios(tier string) []*Scenario {
	k := 1
	var scs []*Scenario
	launchedAny := func(w *World) bool { return len(w.procs) > 0 }
	add := func(nodes []GNode, api ...[]APICall) {
		// API requests are issued once Run() has launched something (requests that
		// race the start-up of Run() itself belong to C03/C20)
		for _, calls := range api {
			for i := range calls {
				if calls[i].When == nil {
					calls[i].When = launchedAny
				}
			}
		}
		sc := graphScenario("c01", nodes, k, api...)
		g := newGcfg(nodes)
		sc.Check = func(w *World) []Violation { return g.checkLaunchGating(w.pre()) }
		scs = append(scs, sc)
	}
	leaf := func(name string, deps map[string]string) GNode {
		return GNode{Name: name, Beh: "ok", Deps: deps}
	}
	// one edge, every condition, dependency satisfying / failing it, with API perturbations
	for _, c := range allConds {
		for _, v := range []string{"sat", "unsat"} {
			a := depNodeFor("a", c, v)
			b := leaf("b", map[string]string{"a": c})
			add([]GNode{a, b})
			add([]GNode{a, b}, []APICall{{Op: "stop", Name: "a"}})
			if v == "sat" {
				add([]GNode{a, b}, []APICall{{Op: "restart", Name: "a"}})
				add([]GNode{a, b}, []APICall{{Op: "restart", Name: "b"}})
			}
		}
		// a dependency that cannot be started at all (exec fails; working_dir does not exist)
		for _, beh := range []string{"startfail", "baddir"} {
			a := depNodeFor("a", c, "sat")
			a.Beh, a.PrintsRdy = beh, false
			add([]GNode{a, leaf("b", map[string]string{"a": c})})
		}
		// restartable dependency: fails first, then behaves
		a := depNodeFor("a", c, "sat")
		a.Restart = "on_failure"
		b := leaf("b", map[string]string{"a": c})
		sc := graphScenario("c01-retry", []GNode{a, b}, k)
		first := []Action{Exit(1)}
		sc.Procs["a"].Launches = append([][]Action{first}, sc.Procs["a"].Launches...)
		g := newGcfg([]GNode{a, b})
		sc.Check = func(w *World) []Violation { return g.checkLaunchGating(w.pre()) }
		sc.TickBudget = 2
		scs = append(scs, sc)
		// the same dependency is stopped / restarted by hand while it waits out its back-off (Restarting)
		for _, op := range []string{"stop", "restart"} {
			a2 := a
			sc := graphScenario("c01-retry", []GNode{a2, b}, k)
			sc.ID += "-" + op + "-in-backoff"
			sc.Procs["a"].Launches = append([][]Action{{Exit(1)}}, sc.Procs["a"].Launches...)
			restarting := func(w *World) bool { return w.lastStat["a"] == "Restarting" }
			sc.API = [][]APICall{{{Op: op, Name: "a", When: restarting}}}
			g := newGcfg([]GNode{a2, b})
			sc.Check = func(w *World) []Violation { return g.checkLaunchGating(w.pre()) }
			sc.TickBudget = 3
			scs = append(scs, sc)
		}
	}
	// process_healthy on a dependency that has no readiness probe at all, or a liveness probe only (both load in a
	// default, non-strict project): it never becomes healthy, the dependent never launches
	{
		add([]GNode{{Name: "a", Beh: "daemon"}, leaf("b", map[string]string{"a": cHealthy})})
		lv := GNode{Name: "a", Beh: "daemon", Extra: []string{"liveness_probe:", "  exec:", "    command: \"probe-live-a\"", "  period_seconds: 1"}}
		add([]GNode{lv, leaf("b", map[string]string{"a": cHealthy})})
		sc := scs[len(scs)-1]
		sc.ID += "-liveness-only"
		if sc.Aux == nil {
			sc.Aux = map[string][]string{}
		}
		sc.Aux["probe-live-a"] = []string{"ok"}
		sc.Horizon = 6 * time.Second
		sc.TickBudget = 2
	}
	// a dependency that takes its time to go down (3 s after the signal) and gets a second request while it
	// is Terminating: its dependents wait until the command has really gone
	for _, c := range []string{cCompleted, cSucc} {
		for _, second := range []string{"stop", "restart"} {
			a := GNode{Name: "a", Beh: "daemon"}
			b := leaf("b", map[string]string{"a": c})
			terminating := func(w *World) bool { return w.lastStat["a"] == "Terminating" }
			add([]GNode{a, b}, []APICall{{Op: "stop", Name: "a"}, {Op: second, Name: "a", When: terminating}})
			sc := scs[len(scs)-1]
			sc.ID += "-slowdie"
			sc.Procs["a"].DieAfter = 3 * time.Second
			sc.TickBudget = 4
		}
	}
	// two edges on three processes: chain, fan-in, fan-out
	conds2 := allConds
	for _, c1 := range conds2 {
		for _, c2 := range conds2 {
			if tier != "thorough" && c1 != c2 && (c1 == cHealthy || c2 == cHealthy) && (c1 == cLogReady || c2 == cLogReady) {
				continue
			}
			// chain a -> b -> c : b must both satisfy c2 for c and wait for a
			a := depNodeFor("a", c1, "sat")
			b := withDeps(depNodeFor("b", c2, "sat"), map[string]string{"a": c1})
			c := leaf("c", map[string]string{"b": c2})
			add([]GNode{a, b, c})
			// fan-in: c waits for a (c1) and b (c2)
			if c1 <= c2 {
				add([]GNode{depNodeFor("a", c1, "sat"), depNodeFor("b", c2, "sat"), leaf("c", map[string]string{"a": c1, "b": c2})})
			}
			// unsatisfied first edge in a chain
			// (process_started behind a process that is never released is the one condition whose
			// meaning depends on the dependency's own dependencies: always included)
			if tier == "thorough" || c1 == c2 || c2 == cStarted {
				au := depNodeFor("a", c1, "unsat")
				add([]GNode{au, b, c})
			}
		}
		// the middle process of a chain is stopped / restarted while it is itself still pending
		{
			a := GNode{Name: "a", Beh: "ok"}
			b := withDeps(depNodeFor("b", c1, "sat"), map[string]string{"a": cCompleted})
			c := leaf("c", map[string]string{"b": c1})
			add([]GNode{a, b, c}, []APICall{{Op: "stop", Name: "b"}})
			add([]GNode{a, b, c}, []APICall{{Op: "restart", Name: "b"}})
		}
		// fan-out
		add([]GNode{depNodeFor("a", c1, "sat"), leaf("b", map[string]string{"a": c1}), leaf("c", map[string]string{"a": c1})})
	}
	// disabled dependency ("scheduled to run" clause)
	for _, c := range []string{cCompleted, cStarted} {
		a := depNodeFor("a", c, "sat")
		a.Disabled = true
		add([]GNode{a, leaf("b", map[string]string{"a": c}), leaf("c", map[string]string{"b": cCompleted})})
	}
	// late requests through the API: start of an ended dependent, scale-up, added dependent
	for _, c := range []string{cSucc, cCompleted, cLogReady} {
		a := depNodeFor("a", c, "sat")
		b := leaf("b", map[string]string{"a": c})
		ended := func(name string) func(w *World) bool {
			return func(w *World) bool { return w.lastStat[name] == "Completed" || w.lastStat[name] == "Skipped" }
		}
		add([]GNode{a, b}, []APICall{{Op: "start", Name: "b", When: ended("b")}})
		add([]GNode{a, b}, []APICall{{Op: "scale", Name: "b", N: 2}})
		add([]GNode{a, b}, []APICall{{Op: "restart", Name: "a", When: ended("a")}, {Op: "start", Name: "b", When: ended("b")}})
	}
	// the dependent of a process that was skipped (its own dependency failed) is started again by hand after both
	// have ended as Skipped: the skipped process still counts as ended without satisfying anything
	for _, c := range []string{cSucc, cHealthy, cLogReady} {
		a := GNode{Name: "a", Beh: "fail"}
		b := withDeps(depNodeFor("b", c, "sat"), map[string]string{"a": cSucc})
		cc := leaf("c", map[string]string{"b": c})
		skipped := func(name string) func(w *World) bool {
			return func(w *World) bool { return w.lastStat[name] == "Skipped" }
		}
		add([]GNode{a, b, cc}, []APICall{{Op: "start", Name: "c", When: skipped("c")}})
		scs[len(scs)-1].ID += "-restart-skipped-dependent"
		cd := cc
		cd.Disabled = true
		add([]GNode{a, b, cd}, []APICall{{Op: "start", Name: "c", When: skipped("b")}})
		scs[len(scs)-1].ID += "-start-disabled-dependent"
	}
	if tier == "thorough" {
		// diamond and transitive triangle on four processes
		for _, c1 := range []string{cSucc, cStarted, cLogReady} {
			for _, c2 := range []string{cCompleted, cHealthy} {
				a := depNodeFor("a", c1, "sat")
				b := withDeps(depNodeFor("b", c2, "sat"), map[string]string{"a": c1})
				c := withDeps(depNodeFor("c", c2, "sat"), map[string]string{"a": c1})
				d := leaf("d", map[string]string{"b": c2, "c": c2})
				add([]GNode{a, b, c, d})
				add([]GNode{a, b, leaf("c", map[string]string{"a": c1, "b": c2})})
			}
		}
		for i := range scs {
			if len(scs[i].API) > 0 || len(scs[i].Procs) <= 2 {
				scs[i].K = 2
			}
		}
	}
	seen := map[string]bool{}
	var out []*Scenario
	for _, sc := range scs {
		if seen[sc.ID] {
			sc.ID += fmt.Sprintf("-%d", len(out))
		}
		seen[sc.ID] = true
		out = append(out, sc)
	}
	return out
}
