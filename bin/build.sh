#!/bin/bash
# build.sh <scratch-dir> [race]: instrument $VERIF_REPO (default /repo) and build the harness test binary.
set -euo pipefail
S="$1"; RACE="${2:-}"
REPO="${VERIF_REPO:-/repo}"
V="$(cd "$(dirname "${BASH_SOURCE[0]}")/.." && pwd)"
export GOFLAGS=-mod=mod GOPROXY=off GOSUMDB=off GOTOOLCHAIN=local CGO_ENABLED=0
mkdir -p "$S"
# 1. instrumenter (built with the default go; cached binary keyed by its source)
IH=$(cat $V/engine/instrument/main.go $V/engine/instrument/go.mod | sha1sum | cut -c1-12)
IB="$V/.cache/instrument-$IH"
if [ ! -x "$IB" ]; then
  mkdir -p $V/.cache
  (cd $V/engine/instrument && go build -o "$IB" .)
fi
"$IB" -repo "$REPO" -out "$S" -vrt $V/engine/vrt >/dev/null
# 2. harness module in the scratch dir
mkdir -p "$S/harness"
cp $V/harness/*.go "$S/harness/"
mkdir -p "$S/harness/fastg" && cp $V/harness/fastg/* "$S/harness/fastg/"
cat > "$S/harness/go.mod" <<EOM
module vh

go 1.26.8

require github.com/f1bonacc1/process-compose v0.0.0

replace github.com/f1bonacc1/process-compose => $REPO

$(grep '^replace ' $REPO/go.mod)
EOM
cp "$REPO/go.sum" "$S/harness/go.sum"
cd "$S/harness"
GO=go1.26.8
if [ "$RACE" = race ]; then
  CGO_ENABLED=1 $GO test -c -race -tags verif -vet=off -overlay "$S/overlay.json" -o "$S/vh.race.test" . 
else
  $GO test -c -tags verif -vet=off -overlay "$S/overlay.json" -o "$S/vh.test" .
fi
